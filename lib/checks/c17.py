"""C17 — opening arbitrary or damaged files fails cleanly: no panic, hang or takeover.

Images.tla GENERATES structured damaged images of a 4-data-block device and predicts the outcome
class of the documented-layout reader; `fxv images` turns each into bytes, opens it with the real
store in child processes (catch_unwind + watchdog), probes every store that opens and compares the
file before/after.  A seeded byte-level mutation pass and purely random files ride on top.  The
verdict (no panic / terminates / rejected files untouched) is OBSERVED on the real code; the
model contributes the enumeration and, for images it predicts to open, the exposed generations."""
import collections
import json
import os
import shutil
import subprocess
import time

import vcommon as v

PROP = "C17"
FULL_SPACE = "33^4 block contents x 25^2 journal slots x 18^2 metadata copies x 2 (TTL) x 3 (size kinds)"

# slice -> constants of Images.tla
SLICES = {
    "data": dict(FullBlk="TRUE", FullSlot="FALSE", FullMeta="FALSE", Vers="{1, 2, 3}", Sizes='{"ok"}', Pin="FALSE", OnlyUndamaged="FALSE"),
    "journal": dict(FullBlk="FALSE", FullSlot="TRUE", FullMeta="FALSE", Vers="{1, 2, 3}", Sizes='{"ok"}', Pin="FALSE", OnlyUndamaged="FALSE"),
    "meta": dict(FullBlk="FALSE", FullSlot="FALSE", FullMeta="TRUE", Vers="{1, 2, 3}", Sizes='{"ok", "short", "unal"}', Pin="FALSE", OnlyUndamaged="FALSE"),
    "all": dict(FullBlk="TRUE", FullSlot="TRUE", FullMeta="TRUE", Vers="{1, 2, 3}", Sizes='{"ok"}', Pin="FALSE", OnlyUndamaged="FALSE"),
    # only images every element of which the store itself writes (the others are not printed)
    "valid": dict(FullBlk="FALSE", FullSlot="FALSE", FullMeta="FALSE", Vers="{1, 2, 3}", Sizes='{"ok"}', Pin="FALSE", OnlyUndamaged="TRUE"),
    # exhaustive breadth-first enumeration of every data area under one valid metadata copy
    "pin1": dict(FullBlk="TRUE", FullSlot="FALSE", FullMeta="FALSE", Vers="{1}", Sizes='{"ok"}', Pin="TRUE", OnlyUndamaged="FALSE"),
    "pin2": dict(FullBlk="TRUE", FullSlot="FALSE", FullMeta="FALSE", Vers="{2}", Sizes='{"ok"}', Pin="TRUE", OnlyUndamaged="FALSE"),
    "pin3": dict(FullBlk="TRUE", FullSlot="FALSE", FullMeta="FALSE", Vers="{3}", Sizes='{"ok"}', Pin="TRUE", OnlyUndamaged="FALSE"),
}

# (slice, DE, number of simulated images or None = exhaustive)
PLAN = {
    "quick": [("data", 20, 1500), ("journal", 20, 900), ("meta", 20, 900), ("all", 20, 1500), ("valid", 20, 30000)],
    "thorough": [("pin3", 19, None), ("pin2", 19, None), ("pin1", 19, None),
                 ("data", 20, 80000), ("journal", 20, 30000), ("meta", 20, 30000), ("all", 20, 80000),
                 ("valid", 20, 200000)],
    # every one of the 33^4 data areas of the 4-block device (about 15 min per version on 8 cores)
    "exhaustive": [("pin3", 20, None), ("pin2", 20, None)],
}
EXTRA = {"quick": dict(mutate=10000, random=2500), "thorough": dict(mutate=60000, random=12000),
         "exhaustive": dict(mutate=0, random=0)}


def _tlc(rd, tag, consts, de, num, seed, workers, timeout):
    """Run the generator; stdout goes to a file (the exhaustive slices print hundreds of MB)."""
    cfg = os.path.join(rd, "MCImages_%s.cfg" % tag)
    with open(cfg, "w") as fh:
        fh.write("CONSTANTS\n  DS = 16  DE = %d\n" % de)
        for k, val in consts.items():
            fh.write("  %s = %s\n" % (k, val))
        fh.write("SPECIFICATION Spec\n")
    out = os.path.join(rd, "tlc_%s.out" % tag)
    tmp = os.path.join(rd, "tmp_" + tag)
    os.makedirs(tmp, exist_ok=True)
    meta = os.path.join(rd, "tlc-meta-" + tag)
    cmd = ["java", "-XX:+UseParallelGC", "-Xmx6g", "-Xss1g", "-Djava.io.tmpdir=" + tmp,
           "-cp", v.JAR + ":" + v.DEPS, "tlc2.TLC", "-workers", str(workers), "-metadir", meta, "-cleanup",
           "-noGenerateSpecTE", "-deadlock", "-config", cfg]
    if num is not None:
        cmd += ["-simulate", "num=%d" % num, "-seed", str(seed), "-depth", "16"]
    cmd.append("Images.tla")
    r = v.TlcResult()
    t0 = time.time()
    with open(out, "w") as fh:
        try:
            p = subprocess.run(cmd, cwd=v.SPEC, stdout=fh, stderr=subprocess.STDOUT, timeout=timeout)
            r.rc = p.returncode
        except subprocess.TimeoutExpired:
            r.timeout, r.rc = True, -9
    r.wall = time.time() - t0
    shutil.rmtree(meta, ignore_errors=True)
    shutil.rmtree(tmp, ignore_errors=True)
    # everything that is not a printed image: banner, progress, errors, statistics
    keep = []
    n = 0
    with open(out) as fh:
        for line in fh:
            if line.startswith('<<"IMG"'):
                n += 1
            elif len(keep) < 4000:
                keep.append(line)
    r.out = "".join(keep)
    v.parse_tlc(r)
    v.tlc_ok(r, "Images(%s)" % tag)
    if r.violation:
        raise v.ToolError("Images(%s): unexpected %s" % (tag, r.violation))
    space = v.printed_json(r.out, "SPACE")
    return out, n, (space[0] if space else {}), r


def generate(rd, tier, seed):
    plan = PLAN[tier]

    def one(job):
        i, (name, de, num) = job
        tag = "%s_%d" % (name, de)
        # simulation is reproducible with one worker; the exhaustive slices use breadth-first search
        return (name, de, num) + _tlc(rd, tag, SLICES[name], de, num, seed * 101 + i, 1 if num else 4,
                                      600 if tier == "quick" else 3000)
    res = v.parallel_map(one, list(enumerate(plan)), jobs=4)
    inp = os.path.join(rd, "images.tlcout")
    stats = []
    space = {}
    with open(inp, "w") as out:
        for name, de, num, path, n, sp, r in res:
            space = space or sp
            stats.append({"slice": name, "data_blocks": de - 16, "mode": "simulate num=%d" % num if num else "exhaustive",
                          "images": n, "tlc_wall_s": round(r.wall, 1), "slice_alphabets": sp.get("slice")})
            if num and n != num and name != "valid":
                raise v.ToolError("Images(%s): %d images printed, %d requested" % (name, n, num))
            if n == 0:
                raise v.ToolError("Images(%s): no image printed" % name)
            with open(path) as fh:
                for line in fh:
                    if line.startswith('<<"IMG"') or line.startswith('<<"SPACE"'):
                        out.write(line)
            os.remove(path)
    return inp, stats, space


def observe(fxv, rd, inp, seed, mutate, rnd, lean, timeout):
    shm = v.shm_dir("img")
    outp = os.path.join(rd, "results.ndjson")
    cmd = [fxv, "images", "--in", inp, "--out", outp, "--dir", shm, "--seed", str(seed), "--jobs", "8",
           "--mutate", str(mutate), "--random", str(rnd), "--wd", "10"]
    if lean:
        cmd.append("--lean")
    try:
        rc, so, se = v.run_cmd(cmd, timeout=timeout)
    finally:
        shutil.rmtree(shm, ignore_errors=True)
    if rc != 0:
        raise v.ToolError("fxv images failed rc=%s %s %s" % (rc, so[-300:], se[-600:]))
    summary = {}
    for line in so.splitlines():
        try:
            summary.update(json.loads(line))
        except Exception:
            pass
    return outp, summary


# ------------------------------------------------------------------ verdict rules

def _panic_where(panics):
    """'sut' when some recorded panic points into the code under test, 'tool' when all of them
    point into the harness, None without panics."""
    if not panics:
        return None
    return "sut" if any(v.panic_in_code_under_test(p) for p in panics) else "tool"


def judge_one(r, o, amb):
    """Verdicts for one observation `o` (the first open, or the one with
    allow_ambiguous_legacy_recovery) of result line `r`.  Returns (violations, notes): lists of
    (key, text); notes only count in the evidence."""
    viol, notes = [], []
    obs = o.get("observed")
    opened = obs == "open"
    how = " (allow_ambiguous_legacy_recovery)" if amb else ""
    where = _panic_where(o.get("panics"))
    if obs == "panic":
        if where == "tool":
            raise v.ToolError("panic inside the harness while opening image %s: %s" % (r.get("id"), o.get("panics")))
        viol.append(("panic", "open panicked%s: %s" % (how, "; ".join(o.get("panics") or ["?"])[:300])))
    elif obs == "hang":
        phase = (o.get("phase") or "?").split("\n")[0]
        viol.append(("hang", "did not terminate within the watchdog period in three runs (10 s in its batch, 30 s alone, twice): stuck in `%s`; "
                             "thread backtraces in the saved result" % phase))
    elif obs == "abort" and o.get("exit_code") == 101:
        # exit code 101 = a panic on the harness's own main thread (panics of the code under test are
        # caught; a crash of the code under test ends the process with a signal)
        raise v.ToolError("the harness itself panicked on image %s: %s" % (r.get("id"), (o.get("stderr") or "")[-400:]))
    elif obs == "abort":
        viol.append(("abort", "the process under test died (%s) %s" % (o.get("status", ""), (o.get("stderr") or "")[-200:].strip())))
    elif where == "sut":
        viol.append(("panic", "a thread of the store panicked%s: %s" % (how, "; ".join(o["panics"])[:300])))
    if opened and o.get("probe") == "panic":
        viol.append(("probe-panic", "the opened store panicked in the probe workload%s: %s" % (how, "; ".join(o.get("panics") or ["?"])[:300])))
    rejected = obs not in ("open", "panic", "hang", "abort")
    if r.get("nonempty") and r.get("recognisable") is False:
        if opened:
            viol.append(("takeover", "a non-empty file without FeOx signature was opened as a store%s" % how))
        elif rejected and o.get("modified"):
            viol.append(("unrecognisable-modified", "a file without FeOx signature was rejected (%s) but modified%s" % (obs, how)))
    if obs in ("InvalidDevice", "InvalidMetadata") and o.get("modified"):
        viol.append(("rejected-modified", "open failed with %s but the file was modified%s" % (obs, how)))
    pred = o.get("pred")
    if pred is not None and obs not in ("panic", "hang", "abort"):
        same = pred == obs and (not opened or (o.get("pred_kv") == o.get("kv") and o.get("pred_gh") == len(o.get("extra") or [])))
        if not same:
            text = "model: %s kv=%s ghosts=%s, store: %s kv=%s extra=%s%s" % (
                pred, o.get("pred_kv"), o.get("pred_gh"), obs, o.get("kv"), o.get("extra"), how)
            if pred == "open":
                viol.append(("prediction-mismatch", text))
            else:
                notes.append(("damaged-mismatch", text))
    if o.get("oracle") not in (None, obs) and obs not in ("panic", "hang", "abort"):
        notes.append(("oracle-mismatch", "byte-level reader: %s, store: %s%s" % (o.get("oracle"), obs, how)))
    return viol, notes


def judge(r):
    viol, notes = judge_one(r, r, False)
    if isinstance(r.get("amb"), dict):
        a = dict(r["amb"])
        v2, n2 = judge_one(r, a, True)
        viol += v2
        notes += n2
    return viol, notes


def brief(r):
    """A result line small enough for the evidence file."""
    it = r.get("item") or {}
    img = it.get("img") or {}
    d = {"id": r.get("id"), "kind": r.get("kind"), "fmt": r.get("fmt"), "ttl": r.get("ttl"),
         "predicted": r.get("pred"), "observed": r.get("observed"), "probe": r.get("probe"),
         "modified": r.get("modified"), "kv": r.get("kv"), "extra": r.get("extra")}
    if img:
        d["blocks"] = ["%s%s" % (b[0], ":" + "/".join(str(x) for x in b[1:] if x not in ("", 0)) if any(x not in ("", 0) for x in b[1:]) else "")
                       for b in img.get("b", [])]
        d["journal"] = [s[0] if not s[2] else "%s@%s%s" % (s[0], s[1], s[2]) for s in img.get("j", [])]
        d["meta"] = ["%s v%s g%s" % tuple(m) if m[0] != "z" else "z" for m in img.get("m", [])]
        d["size"] = img.get("size")
    if r.get("notes"):
        d["notes"] = r["notes"][:4]
    if "amb" in r:
        d["with_allow_ambiguous"] = {"predicted": r["amb"].get("pred"), "observed": r["amb"].get("observed")}
    return d


def evaluate(fxv, results_path, save=True):
    """Apply the rules to every result line. Returns (violations, statistics, samples)."""
    st = {"evaluations": 0, "items": 0, "observed": collections.Counter(), "by_kind": collections.Counter(),
          "predicted": collections.Counter(), "opened": 0, "probe_ok": 0, "probe_errors": collections.Counter(),
          "rejected_unmodified": 0, "rejected_modified_after_replay": 0, "unrecognisable": 0,
          "unrecognisable_rejected_unmodified": 0, "valid_images": 0, "valid_images_agree": 0,
          "predicted_open": 0, "predicted_open_agree": 0, "damaged_predictions": 0, "damaged_mismatch": 0,
          "oracle_mismatch": 0, "with_allow_ambiguous": 0, "unconfirmed": []}
    hashes = set()
    violations, samples, seen_keys = [], [], collections.Counter()
    sample_classes = set()
    note_examples = {}
    with open(results_path) as fh:
        for line in fh:
            try:
                r = json.loads(line)
            except Exception:
                raise v.ToolError("unreadable result line: %s" % line[:200])
            st["items"] += 1
            obs = r.get("observed")
            if r.get("unconfirmed"):
                # a hang/abort that a solitary second run (3x watchdog) did not reproduce: starvation
                # on a loaded machine, not a property of the image; kept in the evidence
                st["unconfirmed"].append({"id": r.get("id"), "first_run": r["unconfirmed"].get("first_run"),
                                          "runs": [{"run": x.get("run"), "observed": x.get("observed"),
                                                    "phase": (x.get("phase") or "")[:3000]}
                                                   for x in r["unconfirmed"].get("runs", [])],
                                          "final_run": obs})
                if save and r.get("item") is not None:
                    v.save_replay("c17", "unconfirmed_%s_%s.json" % (r.get("kind"), r.get("id")), r["item"])
                    v.save_replay("c17", "unconfirmed_%s_%s.result.json" % (r.get("kind"), r.get("id")),
                                  {k: x for k, x in r.items() if k != "item"})
            for o, amb in [(r, False)] + ([(r["amb"], True)] if isinstance(r.get("amb"), dict) else []):
                st["evaluations"] += 1
                ob = o.get("observed")
                st["observed"][ob] += 1
                if amb:
                    st["with_allow_ambiguous"] += 1
                if ob == "open":
                    st["opened"] += 1
                    st["probe_ok"] += o.get("probe") == "ok"
                    for e in o.get("probe_errs") or []:
                        st["probe_errors"][e] += 1
                elif ob not in ("panic", "hang", "abort"):
                    if o.get("modified"):
                        st["rejected_modified_after_replay"] += 1
                    else:
                        st["rejected_unmodified"] += 1
                if o.get("pred") is not None:
                    st["predicted"][o["pred"]] += 1
                    agree = o["pred"] == ob and (ob != "open" or (o.get("pred_kv") == o.get("kv") and o.get("pred_gh") == len(o.get("extra") or [])))
                    if o["pred"] == "open":
                        st["predicted_open"] += 1
                        st["predicted_open_agree"] += agree
                    else:
                        st["damaged_predictions"] += 1
                    if r.get("valid") and not amb:
                        st["valid_images"] += 1
                        st["valid_images_agree"] += agree
            st["by_kind"]["%s/%s" % (r.get("kind"), obs)] += 1
            if r.get("nonempty") and r.get("recognisable") is False:
                st["unrecognisable"] += 1
                st["unrecognisable_rejected_unmodified"] += (obs not in ("open", "panic", "hang", "abort") and not r.get("modified"))
            if obs != "InvalidDevice" and r.get("hash"):
                hashes.add(r["hash"])
            viol, notes = judge(r)
            for key, text in notes:
                st["damaged_mismatch" if key == "damaged-mismatch" else "oracle_mismatch"] += 1
                note_examples.setdefault(key, []).append({"case": brief(r), "what": text}) if len(note_examples.get(key, [])) < 3 else None
            for key, text in viol:
                seen_keys[key] += 1
                if seen_keys[key] > 5:
                    continue        # the first few of a kind are enough to replay
                replay = "-"
                if save and r.get("item") is not None:
                    name = "%s_%s_%s" % (key, r.get("kind"), r.get("id"))
                    replay = v.save_replay("c17", name + ".json", r["item"])
                    v.run_cmd([fxv, "images", "--in", replay, "--emit", replay[:-5] + ".bin"], timeout=60)
                    v.save_replay("c17", name + ".result.json", {k: x for k, x in r.items() if k != "item"})
                violations.append({"what": "%s: image %s (%s): %s" % (key, r.get("id"), json.dumps(brief(r))[:400], text),
                                   "replay": replay, "key": key})
            cls = (r.get("kind"), obs)
            if cls not in sample_classes and len(samples) < 14 and r.get("item") is not None:
                sample_classes.add(cls)
                samples.append(brief(r))
    st["distinct_nontrivial"] = len(hashes)
    st["violation_kinds"] = dict(seen_keys)
    st["note_examples"] = note_examples
    return violations, st, samples


def run(tier, seed):
    plan_tier = "exhaustive" if os.environ.get("C17_EXHAUSTIVE") else tier
    rd = v.run_dir("c17")
    fxv = v.build_harness()
    t0 = time.time()
    inp, slices, space = generate(rd, plan_tier, seed)
    t_gen = time.time() - t0
    n_img = sum(s["images"] for s in slices)
    v.log("[c17] %d images generated by TLC in %.1fs" % (n_img, t_gen))
    extra = EXTRA[plan_tier]
    t1 = time.time()
    outp, summary = observe(fxv, rd, inp, seed, extra["mutate"], extra["random"], lean=n_img > 20000,
                            timeout=900 if tier == "quick" else 7200)
    v.log("[c17] %s" % json.dumps(summary))
    os.remove(inp)
    violations, st, samples = evaluate(fxv, outp)
    full = None
    if space:
        full = (space["nblk"] ** 4) * (space["nslot"] ** 2) * (space["nmeta"] ** 2) * space["nttl"] * space["nsize"]
    cov = {
        "evaluations": st["evaluations"], "distinct_nontrivial": st["distinct_nontrivial"],
        "rule": "one evaluation = one open of one concrete file by the real store in a child process under "
                "catch_unwind and a 10 s watchdog, followed (when it opens) by the probe workload len/get/"
                "contains_key/get_size/get_bytes/range_query/insert/delete/flush and a byte comparison of the "
                "file; files are (a) images printed by Images.tla (per data block one of 33 contents incl. "
                "forged key/value lengths and extents, forged marker lengths, ghosts; per journal slot one of "
                "25 incl. forged counts/extents; per metadata copy one of 18; TTL on/off; size kinds) "
                "concretised by the independent encoder, (b) the same with 1-3 seeded byte-level mutations "
                "(bit flips, block swaps, truncated/duplicated extents, 512-byte sector overwrites, resizes), "
                "(c) random files of valid sizes.  `distinct_nontrivial` = distinct byte images that got past "
                "the size check.  Violations: panic, hang, abort, probe panic, modified or accepted file "
                "without signature, file modified by an open that failed with InvalidDevice/InvalidMetadata, "
                "disagreement with the model on an image the model predicts to open",
        "samples": samples,
        "full_space": {"size": full, "factors": FULL_SPACE, "alphabets": {k: space.get(k) for k in ("nblk", "nslot", "nmeta", "nttl", "nsize")}},
        "slices": slices, "tlc_images": n_img, "items": st["items"],
        "observed": dict(st["observed"]), "by_kind": dict(st["by_kind"]), "predicted": dict(st["predicted"]),
        "opened": st["opened"], "probe_ok": st["probe_ok"], "probe_errors": dict(st["probe_errors"]),
        "rejected_unmodified": st["rejected_unmodified"],
        "rejected_modified_after_journal_replay": st["rejected_modified_after_replay"],
        "unrecognisable_files": st["unrecognisable"],
        "unrecognisable_rejected_unmodified": st["unrecognisable_rejected_unmodified"],
        "undamaged_images": st["valid_images"], "undamaged_images_agree": st["valid_images_agree"],
        "predicted_open": st["predicted_open"], "predicted_open_agree": st["predicted_open_agree"],
        "damaged_predictions": st["damaged_predictions"], "damaged_mismatch": st["damaged_mismatch"],
        "oracle_mismatch": st["oracle_mismatch"], "opens_with_allow_ambiguous": st["with_allow_ambiguous"],
        "mismatch_examples": st["note_examples"], "violation_kinds": st["violation_kinds"],
        "unconfirmed_first_run_failures": st["unconfirmed"][:20], "stopped_early": bool(summary.get("stopped_early")),
        "generate_s": round(t_gen, 1), "observe_s": round(time.time() - t1, 1),
    }
    return {"level": "exploration", "coverage": cov, "violations": violations,
            "assumptions": ["the verdict is observed on the real code; the model only enumerates the structured damage space "
                            "and predicts classes (compared as a property only where it predicts a store that opens)",
                            "a child process per 40 images: a crash of the code under test is recorded for the image that caused it",
                            "independent encoder (harness/src/layout.rs) builds the bytes; forged fields are patched after encoding "
                            "and checksums/tokens re-stamped where the model says they still verify",
                            "device of 4 data blocks (3 in the exhaustive slices of the thorough tier); io_uring available, no O_DIRECT"]}


def replay(path):
    """Re-run saved work items (a .json written by this check, or any result/item ndjson)."""
    rd = v.run_dir("c17_replay")
    fxv = v.build_harness()
    outp, summary = observe(fxv, rd, path, 1, 0, 0, lean=False, timeout=600)
    print(json.dumps(summary))
    violations, st, samples = evaluate(fxv, outp, save=False)
    for line in open(outp):
        r = json.loads(line)
        r.pop("item", None)
        print(json.dumps(r)[:1500])
    for viol in violations:
        print(viol["what"])
    if violations:
        print("VIOLATION property=%s replay=%s" % (PROP, path))
        return 1
    print("image(s) handled cleanly")
    return 0

"""C18 — calls, flush and close always terminate (no deadlock, no lost wake-up).

(1) Every engine run of every check is under a watchdog; here targeted contention workloads are run
    (concurrent flush() callers with writers and readers, devices that run full, failing devices,
    clean drop after each) and must terminate.
(2) The lock-ownership events of these runs are reduced to the per-thread nesting words that
    actually occur (normal, full-device, failure, reader, flush-caller and metadata paths); Locks.tla
    lets 2 and 3 threads run ANY combination of observed words in every interleaving and TLC checks
    that no state is reachable in which a thread is stuck forever (NoDeadlock).  An inversion
    introduced on a rarely taken path is therefore reported the first time the path runs, without
    the deadlock having to strike."""
import collections
import json
import os
import random
import shutil

import vcommon as v

PROP = "C18"


def words_of(lockfile):
    words = collections.Counter()
    held = collections.defaultdict(list)
    cur = collections.defaultdict(list)
    if not os.path.exists(lockfile):
        return words
    for line in open(lockfile):
        try:
            e = json.loads(line)
        except Exception:
            continue
        t = e["tid"]
        if e["acq"]:
            cur[t].append(("w" if e["mode"] == 2 else "r", e["lock"]))
            held[t].append(e["lock"])
        else:
            cur[t].append(("rel", e["lock"]))
            if e["lock"] in held[t]:
                held[t].remove(e["lock"])
            if not held[t]:
                words[tuple(cur[t])] += 1
                cur[t] = []
    # threads that never released (the process was ended by the watchdog): the requests they had
    # made, closed in LIFO order
    for t, w in cur.items():
        if w:
            w = list(w) + [("rel", l) for l in reversed(held[t])]
            words[tuple(w)] += 1
    return words


def tla_words(words):
    def w2s(w):
        return "<<" + ", ".join('<<"%s", "%s">>' % (o, l) for o, l in w) + ">>"
    return "{" + ",\n   ".join(w2s(w) for w in words) + "}"



def lock_model(rd, words, threads=(2, 3), label="c18"):
    """Locks.tla over the observed nesting words: every combination, every interleaving, NoDeadlock.
    Returns (violation dict or None, states, transitions)."""
    wl = sorted(words)
    mod = os.path.join(rd, "MCLocks.tla")
    open(mod, "w").write("---- MODULE MCLocks ----\nEXTENDS Locks\nObserved ==\n  %s\n====\n" % tla_words(wl))
    shutil.copy(os.path.join(v.SPEC, "Locks.tla"), os.path.join(rd, "Locks.tla"))
    states = trans = 0
    for nthreads in threads:
        cfg = os.path.join(rd, "MCLocks_%d.cfg" % nthreads)
        open(cfg, "w").write("CONSTANTS Words <- Observed  NThreads = %d\nSPECIFICATION Spec\nINVARIANT NoDeadlock\n" % nthreads)
        r = v.run_tlc("MCLocks", cfg, rd, workers=8, timeout=1200, spec_dir=rd, coverage=False)
        v.tlc_ok(r, "Locks(%d threads)" % nthreads)
        states += r.distinct
        trans += r.generated
        if r.violation:
            p = v.save_replay(label, "locks_%d.out" % nthreads, r.out[-6000:])
            v.save_replay(label, "MCLocks.tla", open(mod).read())
            return ({"what": "observed lock nestings can deadlock (%d threads): %s" % (nthreads, r.violation),
                     "replay": p, "key": "lock-order"}, states, trans)
    return None, states, trans

def run(tier, seed):
    rd = v.run_dir("c18")
    fxv = v.build_harness()
    rng = random.Random(seed)
    shm = v.shm_dir("c18")
    viol = []
    jobs = []
    n = 4 if tier == "quick" else 16
    for i in range(n):   # normal + periodic flusher + drop
        jobs.append(("norm%d" % i, "crash", ["--seed", str(rng.randrange(1 << 30)), "--steps", "70", "--cpus", str(rng.choice([2, 4, 8])),
                                              "--blocks", "60", "--keys", "6", "--maximages", "0", "--end", "drop"]))
    for i in range(n):   # device that runs full (OutOfSpace, retirement to make room, requeue)
        jobs.append(("full%d" % i, "crash", ["--seed", str(rng.randrange(1 << 30)), "--steps", "90", "--cpus", str(rng.choice([2, 4])),
                                              "--blocks", "22", "--keys", "6", "--maximages", "0", "--end", "drop", "--flushpct", "20"]))
    for i in range(n):   # failing device: every failure path incl. persistent failure, then drop
        jobs.append(("fail%d" % i, "crash", ["--seed", str(rng.randrange(1 << 30)), "--steps", "50", "--cpus", "2", "--blocks", "44",
                                              "--keys", "4", "--maximages", "0", "--end", "drop", "--forcesync", "1",
                                              "--faultat", str(rng.randrange(4, 70)), "--faultmode", str(rng.choice([1, 2])),
                                              "--faultfrom", str(rng.choice([0, 0, 1])), "--faultcount", str(rng.choice([1, 3, 3, 4]))]))
    for i in range(2 * n):   # three consecutive failing attempts of a record batch: scrub + release under the device lock
        jobs.append(("scrub%d" % i, "crash", ["--seed", str(rng.randrange(1 << 30)), "--steps", "40", "--cpus", "2", "--blocks", "44",
                                               "--keys", "4", "--maximages", "0", "--end", "drop", "--forcesync", "1",
                                               "--faultat", str(6 + 3 * i), "--faultmode", "1", "--faultcount", "3"]))
    for i in range(n):   # concurrent flush() callers, writers and readers on the same keys
        jobs.append(("conc%d" % i, "conc", ["--mode", "free", "--seed", str(rng.randrange(1 << 30)), "--threads", "4", "--ops", "30",
                                             "--keys", "2", "--rounds", "5", "--pers", "1", "--blocks", str(rng.choice([26, 40])),
                                             "--cache", str(i % 2), "--cpus", "4"]))

    for i in range(max(4, n // 2)):   # flush() callers racing with transiently failing record batches (scrub + release)
        jobs.append(("storm%d" % i, "conc", ["--mode", "storm", "--seed", str(rng.randrange(1 << 30)), "--rounds", "60",
                                              "--flushers", str(3 + i % 3), "--fails", str([3, 3, 3, 4][i % 4]), "--cache", str(i % 2),
                                              "--cpus", str([16, 8, 16, 4][i % 4])]))

    for i in range(3 if tier == "quick" else 10):   # the device never recovers: close must still return (bounded final-flush retries)
        jobs.append(("deadclose%d" % i, "crash", ["--seed", str(rng.randrange(1 << 30)), "--steps", "25", "--cpus", str([2, 4, 2][i % 3]), "--blocks", "44",
                                                  "--keys", "4", "--maximages", "0", "--end", "drop", "--forcesync", "1", "--faultat", str([0, 30, 12][i % 3]),
                                                  "--faultmode", "3", "--noheal", "1", "--ttl", "1"]))
    for i in range(2 if tier == "quick" else 6):   # data area unwritable at the kernel level (EFBIG): error completions on the io_uring path
        jobs.append(("unwritable%d" % i, "conc", ["--mode", "storm", "--seed", str(rng.randrange(1 << 30)), "--rounds", "12",
                                                   "--flushers", str([2, 1][i % 2]), "--fails", "0", "--fsize", "1", "--cache", "0",
                                                   "--cpus", str([4, 2][i % 2])]))
    for i in range(2 if tier == "quick" else 8):   # many concurrent flush() callers over 8 and 4 workers, healthy device
        jobs.append(("crowd%d" % i, "conc", ["--mode", "storm", "--seed", str(rng.randrange(1 << 30)), "--rounds", "80",
                                              "--flushers", str([12, 16][i % 2]), "--fails", "0", "--cache", "0",
                                              "--cpus", str([16, 8][i % 2])]))

    for i in range(2 if tier == "quick" else 8):   # the medium is damaged under the open store: calls fail, but return
        jobs.append(("damage%d" % i, "damage", ["--seed", str(rng.randrange(1 << 30)), "--rounds", "5", "--watchdog", "25"]))

    def one(job):
        tag, sub, args = job
        d = os.path.join(shm, tag)
        os.makedirs(d, exist_ok=True)
        lockf = os.path.join(rd, tag + ".locks")
        rc, so, se = v.run_cmd([fxv, sub, "--dir", d, "--out", os.path.join(rd, tag + ".ndjson"), "--lockout", lockf,
                                "--watchdog", "30"] + args, timeout=400)
        shutil.rmtree(d, ignore_errors=True)
        return tag, rc, so, se, lockf, args
    words = collections.Counter()
    try:
        results = v.parallel_map(one, jobs, jobs=8)
    finally:
        shutil.rmtree(shm, ignore_errors=True)
    terminated = 0
    for tag, rc, so, se, lockf, args in results:
        if rc == 3 or rc == -9 or '"hang"' in so:
            p = v.save_replay("c18", tag + ".hang.json", {"args": args, "stdout": so[-600:]})
            viol.append({"what": "workload %s did not terminate: %s" % (tag, so[-200:]), "replay": p, "key": "hang " + tag[:4]})
            words.update(words_of(lockf))
            continue
        if rc != 0:
            if v.panic_in_code_under_test(se):
                p = v.save_replay("c18", tag + ".panic.txt", se[-1500:])
                viol.append({"what": "panic in %s" % tag, "replay": p, "key": "panic"})
                continue
            raise v.ToolError("%s failed rc=%s: %s" % (tag, rc, se[-400:]))
        terminated += 1
        words.update(words_of(lockf))
    if len(words) < 4:
        raise v.ToolError("vacuity: only %d distinct lock words observed" % len(words))
    # ---- TLC: every combination of observed words, every interleaving
    wl = sorted(words)
    mod = os.path.join(rd, "MCLocks.tla")
    open(mod, "w").write("---- MODULE MCLocks ----\nEXTENDS Locks\nObserved ==\n  %s\n====\n" % tla_words(wl))
    shutil.copy(os.path.join(v.SPEC, "Locks.tla"), os.path.join(rd, "Locks.tla"))
    states = trans = 0
    for nthreads in ((2, 3) if tier == "quick" else (2, 3, 4)):
        cfg = os.path.join(rd, "MCLocks_%d.cfg" % nthreads)
        open(cfg, "w").write("CONSTANTS Words <- Observed  NThreads = %d\nSPECIFICATION Spec\nINVARIANT NoDeadlock\n" % nthreads)
        r = v.run_tlc("MCLocks", cfg, rd, workers=8, timeout=1200, spec_dir=rd, coverage=False)
        v.tlc_ok(r, "Locks(%d threads)" % nthreads)
        states += r.distinct
        trans += r.generated
        v.log("[C18] %d threads x %d words: %d states" % (nthreads, len(wl), r.distinct))
        if r.violation:
            p = v.save_replay("c18", "locks_%d.out" % nthreads, r.out[-6000:])
            v.save_replay("c18", "MCLocks.tla", open(mod).read())
            viol.append({"what": "observed lock nestings can deadlock (%d threads): %s" % (nthreads, r.violation),
                         "replay": p, "key": "lock-order"})
            break
    cov = {
        "states": states, "transitions": trans,
        "traces_validated_against_impl": terminated,
        "evaluations": len(jobs), "distinct_nontrivial": len(wl),
        "rule": "evaluations = contention workloads run under the watchdog (normal, full device, failing device, "
                "concurrent flush callers/writers/readers, each ending in a clean drop); distinct_nontrivial = "
                "distinct lock-nesting words observed in them, all combinations of which TLC interleaves",
        "samples": [" ".join("%s:%s" % x for x in w) for w in wl[:12]],
        "word_frequencies": {" ".join("%s:%s" % x for x in w): c for w, c in words.most_common(20)},
    }
    # lock-free loops (the version clock's load / compare-exchange loop, the extent word's acquire loop): every schedule of
    # the clock and word-pin program families, with the loads of those words as decision points, must TERMINATE
    import concengine as _cc
    fam = _cc.clock_family()
    if tier == "quick":
        rng.shuffle(fam)
        fam = fam[:14]
    lres = _cc.run_dfs(fxv, rd, fam, "clockterm", chunk=2, maxsched=30 if tier == "quick" else 200, preempt=2, par=12)
    lsched = 0
    for x in lres:
        if x["rc"] in (3, -9) or "hang" in x["info"]:
            p = v.save_replay("c18", os.path.basename(x["prog"]) + ".hang.json", {"info": x["info"], "programs": x["names"]})
            viol.append({"what": "a schedule at the version-clock loads did not terminate (%s): %s" % (", ".join(x["names"]), x["info"]),
                         "replay": p, "key": "hang lock-free"})
        elif x["rc"] != 0 and not v.panic_in_code_under_test(x["stderr"]):
            raise v.ToolError("fxv conc (clockterm) failed: " + x["stderr"][-400:])
        else:
            lsched += x["info"].get("schedules", 0)
    cov["lock_free_schedules_terminated"] = lsched
    cov["lock_free_programs"] = len(fam)
    # design level, liveness (WriteBehind.tla under weak fairness of worker, start-up and flush caller)
    import crashengine as _ce
    _lv = v.run_tlc("MCWriteBehind", "MCWriteBehind_live.cfg", rd, workers=4, timeout=1200, coverage=False, xmx="8g")
    v.tlc_ok(_lv, "MCWriteBehind(live)")
    if _lv.violation:
        viol = viol + [{"what": "model: flush() does not terminate (%s)" % _lv.violation, "replay": v.save_replay("c18", "mc_live.out", _lv.out[-6000:]), "key": "mc live"}]
    cov["liveness_states"] = _lv.distinct
    _ce.mc_model(rd, "MCWriteBehind", "MCWriteBehind_mut_FlushGivesUp.cfg", workers=2, expect_violation=True, timeout=600)
    if tier != "quick":
        # the handshake across shards (Coord.tla) under weak fairness of the coordinator, the workers, the callers and
        # a reader that unpins: force_flush terminates, a close ends with every worker exited, everything queued drains
        _cl = v.run_tlc("MCCoord", "MCCoord_live.cfg", rd, workers=4, timeout=3600, coverage=False, xmx="12g")
        v.tlc_ok(_cl, "MCCoord(live)")
        cov["coord_liveness_states"] = _cl.distinct
        if _cl.violation:
            viol = viol + [{"what": "model Coord.tla: %s (FlushTerminates / ClosesCleanly / Drains)" % _cl.violation,
                            "replay": v.save_replay("c18", "coord_live.out", _cl.out[-6000:]), "key": "coord live"}]
    return {"level": "model_checking", "coverage": cov, "violations": viol,
            "assumptions": ["lock requests and releases are logged by the lock types themselves (verif::locks wrappers around parking_lot, tied to the real guards); locks outside the store / write-buffer modules (cache buckets, record value cells, hash bucket guards) are not logged",
                            "channels (bounded worker queues, response channels) are not part of the skeleton; "
                            "their progress is covered by the watchdog on the contention workloads only",
                            "liveness of the real code beyond the explored workloads is not derived"]}


def replay(path):
    print(open(path).read()[:4000])
    return 0

"""C16 — the read cache is transparent and its accounting exact.

Store level: every seeded program is run twice on a persistent store, cache on and cache off;
both traces are validated by TLC against the same cache-agnostic contract Store.tla (ResultsMatch).  Unit level: Cache.tla model-checked, recorded executions of the real ClockCache
validated by TraceCache.tla (checks/c16_cache.py)."""
import json
import os
import random

import vcommon as v
import seqchecks as q
from checks import c16_cache
from checks.c01 import q_replay

PROP = "C16"
INV = ["ResultsMatch"]


def results_of(trace):
    out = []
    for line in open(trace):
        e = json.loads(line)
        if e.get("e") == "call":
            out.append((e["op"], e.get("k"), json.dumps(e["res"], sort_keys=True),
                        json.dumps(e.get("items"), sort_keys=True),
                        e["post"]["len"], e["post"]["mem"]))
        elif e.get("e") == "reopen":
            out.append(("reopen", 0, json.dumps([[r["p"], r["ts"], r["exp"], r["vlen"]] for r in e["post"]["recs"]]), "", e["post"]["len"], e["post"]["mem"]))
    return out


def run(tier, seed):
    rd = v.run_dir("c16")
    fxv = v.build_harness()
    rng = random.Random(seed)
    unit = c16_cache.run_cache_unit(tier, seed, rd, fxv)
    viol = list(unit["violations"])
    # cache calls of several threads on keys that share one bucket, interleaved at the cache's lock acquisitions
    # (traced lock types, hook 140086a) by the DFS controller; the order of the critical sections is a sequential
    # call sequence that TraceCache.tla judges (MemExact, HitOnlyExactGen, RemoveThenMiss, TouchSetsRef, RefOnlyByTouch)
    conc = c16_cache.run_cache_conc(tier, seed, rd, fxv)
    viol += conc["violations"]
    # CacheConc.tla: the concurrent design of the cache at critical-section granularity - every interleaving of the same
    # programs on the model (MemExact in every state, UniqueKey, NoFlags, EvLockFree; the SplitRemove variant must fail),
    # sampled behaviours replayed on the real cache, the real executions judged by TraceCache.tla
    mviol, minfo = c16_cache.cache_model_part(tier, seed, rd, fxv)
    viol += mviol
    if minfo.get("design_violation"):
        viol.append({"what": "model: CacheConc.tla " + minfo["design_violation"], "replay": v.save_replay("c16", "cacheconc_mc.txt", str(minfo)), "key": "mc cacheconc"})
    n, steps = (8, 450) if tier == "quick" else (80, 900)
    jobs = []
    pairs = []
    for i in range(n):
        sd = str(rng.randrange(1 << 30))
        fmt = str(rng.choice([3, 3, 2]))
        ttl = str(rng.choice([1, 1, 0]))
        # --cachebias: bursts "short-lived key written, flushed, read while alive, read again after its deadline"
        base = ["--seed", sd, "--steps", str(steps), "--mode", "pers", "--fmt", fmt, "--ttl", ttl, "--cachebias", "1"]
        jobs.append(("p%d_on" % i, base + ["--cache", "1"]))
        jobs.append(("p%d_off" % i, base + ["--cache", "0"]))
        pairs.append(("p%d_on" % i, "p%d_off" % i))
    v2, st = q.run_engine(PROP, tier, seed, INV, jobs, rd, fxv)
    viol += v2
    # Both runs of a pair are judged by the same cache-agnostic contract (whose results are a
    # function of the observed pre-state), which is what transparency means here.  A literal
    # line-by-line comparison of the two runs is not sound: automatic versions depend on the
    # per-instance random clock-shard hash and legitimately differ by a few nanoseconds.
    compared = len(pairs)
    cov = q.coverage_dict(
        st, unit["states"], unit["transitions"],
        "store level: one case = one seeded program run cache-on and cache-off on a persistent store "
        "(values offloaded by flush, reads served from cache / disk), both validated against the cache-agnostic Store.tla; "
        " unit level: recorded ClockCache executions validated by TraceCache.tla",
        q.sample_events(st["sample_trace"]) + unit.get("samples", [])[:2],
        extra={"pairs_compared": compared, "cache_unit_traces": unit["traces"],
               "cache_unit_events": unit["events"],
               "cache_concurrent": {k: conc[k] for k in ("programs", "schedules", "traces", "events")},
               "cacheconc_model": minfo})
    cov["traces_validated_against_impl"] += unit["traces"] + conc["traces"] + minfo["traces"]
    cov["evaluations"] += unit["events"] + conc["events"] + minfo["events"]
    cov["states"] += conc["states"] + minfo["model_states"]
    cov["transitions"] += conc["transitions"]
    return {"level": "model_checking", "coverage": cov, "violations": viol,
            "assumptions": ["cache entry identity read through verif_entries (hook)"]}


def replay(path):
    return q_replay(path, INV)

"""C15 — offline migration is a faithful, verified, non-destructive copy.

Three parts, one verdict rule (R6: only named property formulas):
  1. MCMigration.tla: TLC checks that the specification's own Migrate satisfies MigrationFaithful,
     NonDestructive, FailureClean, AmbiguityRule (and MigrateTotal) for every abstract legacy image
     of a small family; the seeded faults of the model (MCMigration_mut_*.cfg) must each be caught
     by the invariant they target, otherwise the model has lost its sharpness (tool error).
  2. `fxv migrate`: the real `feoxdb::migrate` (and `feox-migrate` when it is built) runs on
     legacy images from real workloads (closed and crashed), from the independent encoder and on
     large multi-batch sources; with / without the opt-in; with destinations that exist before or
     appear during the call, and with single failing device calls at the destination.
  3. TraceMigration.tla: TLC evaluates the property formulas on the recorded facts.
"""
import json
import os
import random
import shutil
import threading
import time

import vcommon as v

PROP = "C15"
INV = ["MigFaithful", "MigNoResurrection", "MigFailureClean", "MigNoLitter", "MigSourceUntouched", "MigSourceWatched",
       "MigNoOverwrite", "MigAmbiguityRule", "MigDstIsV3", "MigDstMeta"]
DEVIATION = "MigConforms"
MC_INV = ["MigrationFaithful", "NonDestructive", "FailureClean", "AmbiguityRule", "MigrateTotal"]
MUTANTS = {"Replay": "MigrationFaithful", "DropExpired": "MigrationFaithful",
           "DropExpiryNoVerify": "MigrationFaithful", "AllowAlways": "AmbiguityRule",
           "Overwrite": "NonDestructive", "LeaveTemp": "FailureClean"}


def cli_path():
    p = os.path.join(v.REPO, "target", "release", "feox-migrate")
    return p if os.path.exists(p) else None


def validate(rd, trace, invariants, timeout=900):
    first = json.loads(open(trace).readline())
    cfg = trace[:-7] + ".cfg"
    tmpl = open(os.path.join(v.SPEC, "TraceMigration.cfg.tmpl")).read()
    open(cfg, "w").write(tmpl.replace("@DE@", str(first["de"])).replace("@INVARIANTS@", " ".join(invariants)))
    return v.run_tlc("TraceMigration", cfg, rd, workers=1, timeout=timeout, env_extra={"TRACE": trace},
                     depth_first=True, coverage=False, xmx="4g")


def locate(r, trace):
    """The case (and its events) whose `end` event produced the offending state."""
    import re
    m = None
    for m in re.finditer(r"/\\ l = (\d+)", r.out):
        pass
    if not m:
        return None, []
    idx = int(m.group(1)) - 1          # 1-based line of the event applied last
    lines = open(trace).read().splitlines()
    start = idx - 1
    while start > 0 and '"e":"case"' not in lines[start]:
        start -= 1
    return idx, lines[start:idx]


def describe(r, trace):
    inv = r.violation.replace("invariant ", "")
    idx, evs = locate(r, trace)
    case, mig = {}, {}
    for line in evs:
        try:
            e = json.loads(line)
        except Exception:
            continue
        if e.get("e") == "case":
            case = e
        elif e.get("e") == "mig":
            mig = {k: e.get(k) for k in ("ok", "err", "dst_exists", "pre_same", "src_same", "tmp_left", "left",
                                         "amb", "records", "report")}
    what = ("%s at event %s of %s: case %s [%s] fmt=%s allow=%s pre=%s via=%s feats=%s -> %s" %
            (inv, idx, os.path.basename(trace), case.get("id"), case.get("desc"), case.get("fmt"),
             case.get("allow"), case.get("pre"), case.get("via"), case.get("feats"), json.dumps(mig)[:400]))
    return inv, what


def run_jobs(fxv, rd, jobs, par=8):
    shm = v.shm_dir("mig")

    def one(job):
        tag, args = job
        d = os.path.join(shm, tag)
        trace = os.path.join(rd, tag + ".ndjson")
        rc, so, se = v.run_cmd([fxv, "migrate", "--dir", d, "--out", trace] + args, timeout=900)
        info = {}
        for line in so.splitlines():
            try:
                info.update(json.loads(line))
            except Exception:
                pass
        shutil.rmtree(d, ignore_errors=True)
        return {"tag": tag, "trace": trace, "rc": rc, "info": info, "stderr": v.clip_stderr(se, 1500), "args": args}
    try:
        return v.parallel_map(one, jobs, jobs=par)
    finally:
        shutil.rmtree(shm, ignore_errors=True)


def model_check(rd, tier, seed, out):
    """MCMigration + the seeded faults of the model (run beside the harness jobs)."""
    names = sorted(MUTANTS)
    if tier == "quick":
        names = [names[seed % len(names)]]
    out["mut"] = {}

    def mutant(n):
        try:
            out["mut"][n] = v.run_tlc("MCMigration", "MCMigration_mut_%s.cfg" % n, os.path.join(rd, "mc_" + n),
                                      workers=2, timeout=900, coverage=False, xmx="4g")
        except Exception as e:
            out["exc"] = e
    ths = []
    if tier == "quick":
        ths = [threading.Thread(target=mutant, args=(n,)) for n in names]
        for t in ths:
            t.start()
    try:
        out["mc"] = v.run_tlc("MCMigration", "MCMigration.cfg", os.path.join(rd, "mc"), workers=8, timeout=900,
                              coverage=False)
        if tier != "quick":
            for n in names:
                mutant(n)
    except Exception as e:  # reported by the caller
        out["exc"] = e
    for t in ths:
        t.join()


def run(tier, seed):
    rd = v.run_dir("c15")
    fxv = v.build_harness()
    rc, so, se = v.run_cmd([fxv, "migrate"], timeout=30)
    if "unknown subcommand" in (so + se):
        raise v.ToolError("the harness has no `migrate` subcommand: add `mod migdrv;` and the "
                          "`\"migrate\" => migdrv::main(rest),` arm to harness/src/main.rs")
    rng = random.Random(seed)
    cli = cli_path()
    mc = {}
    th = threading.Thread(target=model_check, args=(rd, tier, seed, mc))
    th.start()

    jobs = []
    n = 11 if tier == "quick" else 56
    for i in range(n):
        args = ["--seed", str(rng.randrange(1 << 30)),
                "--synth", str(18 if tier == "quick" else 36),
                "--workloads", "1" if tier == "quick" else "2",
                "--crashimgs", str(8 if tier == "quick" else 16),
                "--steps", str(rng.choice([30, 45, 60])),
                "--blocks", str(rng.choice([48, 56])),
                "--threads", "4"]
        if cli:
            args += ["--cli", cli]
        jobs.append(("m%d" % i, args))
    # large multi-batch sources (> 256 and > 4096 records): summary facts only
    lg = [["300", "4300"]] if tier == "quick" else [["300", "4300"], ["257", "4097", "9000"], ["1000", "5000"]]
    for i, sizes in enumerate(lg):
        args = ["--seed", str(rng.randrange(1 << 30)), "--synth", "0", "--workloads", "0",
                "--large", ",".join(sizes), "--threads", "3", "--watchdog", "120"]
        if cli:
            args += ["--cli", cli]
        jobs.append(("large%d" % i, args))
    t0 = time.time()
    res = run_jobs(fxv, rd, jobs)
    v.log("[c15] %d harness runs in %.1fs" % (len(res), time.time() - t0))

    violations = []
    ok_runs = []
    for x in res:
        if x["rc"] == 3 or "hang" in x["info"]:
            p = v.save_replay("c15", x["tag"] + ".args.json", {"args": x["args"], "info": x["info"]})
            violations.append({"what": "migration did not terminate (watchdog): %s" % x["info"], "replay": p,
                               "key": "hang"})
        elif x["rc"] != 0:
            if v.panic_in_code_under_test(x["stderr"]):
                p = v.save_replay("c15", x["tag"] + ".args.json", {"args": x["args"], "stderr": x["stderr"]})
                violations.append({"what": "panic: " + x["stderr"][-300:], "replay": p, "key": "panic"})
            else:
                raise v.ToolError("fxv migrate failed rc=%s %s" % (x["rc"], x["stderr"][-500:]))
        else:
            if x["info"].get("panics", 0):
                p = v.save_replay("c15", x["tag"] + ".ndjson", open(x["trace"]).read())
                violations.append({"what": "migrate() panicked in %d case(s) of %s" % (x["info"]["panics"], x["tag"]),
                                   "replay": p, "key": "panic"})
            ok_runs.append(x)

    st = {"traces": 0, "cases": 0, "ok": 0, "failed": 0, "events": 0, "states": 0, "transitions": 0,
          "pre": 0, "cli": 0, "marker_ok": 0, "sources": 0, "deviations": 0, "faults": 0, "fault_refused": 0}
    fams, feats, errs = {}, {}, {}

    def val(x):
        r = validate(rd, x["trace"], INV + [DEVIATION])
        if r.violation == "invariant " + DEVIATION:
            # conformance with the model is a deviation, not a verdict: note it, judge the rest
            return x, validate(rd, x["trace"], INV), True
        return x, r, False
    for x, r, dev in v.parallel_map(val, ok_runs, jobs=8):
        i = x["info"]
        st["traces"] += 1
        for k_src, k_dst in (("cases", "cases"), ("ok", "ok"), ("failed", "failed"), ("events", "events"),
                             ("pre_cases", "pre"), ("cli_cases", "cli"), ("allowed_marker_migrations", "marker_ok"),
                             ("sources", "sources"), ("fault_cases", "faults"), ("fault_refused", "fault_refused")):
            st[k_dst] += i.get(k_src, 0)
        for f, c in i.get("families", {}).items():
            a = fams.setdefault(f, {"cases": 0, "ok": 0})
            a["cases"] += c["cases"]
            a["ok"] += c["ok"]
        for f, c in i.get("features_migrated", {}).items():
            feats[f] = feats.get(f, 0) + c
        for f, c in i.get("errors", {}).items():
            errs[f] = errs.get(f, 0) + c
        st["states"] += r.distinct
        st["transitions"] += r.generated
        if dev:
            st["deviations"] += 1
            v.log("[c15] deviation: the outcome of a case of %s differs from the model's prediction (MigConforms)"
                  % x["tag"])
            v.save_replay("c15", "deviation_" + x["tag"] + ".ndjson", open(x["trace"]).read())
        if r.violation and r.violation.startswith("invariant"):
            inv, what = describe(r, x["trace"])
            keep = v.save_replay("c15", os.path.basename(x["trace"]), open(x["trace"]).read())
            violations.append({"what": what + " (fxv migrate %s)" % " ".join(x["args"]), "replay": keep, "key": inv})
        elif r.violation:
            raise v.ToolError("TraceMigration(%s): %s: %s" % (x["tag"], r.violation, r.out[-600:]))
        else:
            v.tlc_ok(r, "TraceMigration(%s)" % x["tag"])

    v.log("[c15] %d traces validated (%d cases) after %.1fs" % (st["traces"], st["cases"], time.time() - t0))
    th.join()
    v.log("[c15] model checking joined after %.1fs" % (time.time() - t0))
    if "exc" in mc:
        raise v.ToolError("model checking of Migration.tla failed: %r" % (mc["exc"],))
    r = mc["mc"]
    if r.violation:
        keep = v.save_replay("c15", "MCMigration.out", r.out[-20000:])
        violations.append({"what": "MCMigration: %s (the specification's Migrate does not satisfy its own property)"
                                   % r.violation, "replay": keep, "key": "spec " + r.violation})
    else:
        v.tlc_ok(r, "MCMigration")
    st["states"] += r.distinct
    st["transitions"] += r.generated
    mc_states = r.distinct
    caught = []
    for name, mr in mc.get("mut", {}).items():
        want = "invariant " + MUTANTS[name]
        if mr.violation != want:
            v.tlc_ok(mr, "MCMigration_mut_" + name)
            raise v.ToolError("seeded fault %s of the migration model is not caught by %s (got %s)"
                              % (name, MUTANTS[name], mr.violation))
        caught.append(name)

    # non-vacuity: the harness must have seen successful migrations of every kind
    if ok_runs and not violations:
        need = ["dup_older_first", "dup_older_last", "expired_winner", "multiblock", "legacy_marker",
                "pending_marker", "active_journal", "multi_batch"]
        missing = [f for f in need if feats.get(f, 0) == 0]
        if st["ok"] == 0 or missing or st["pre"] == 0:
            raise v.ToolError("vacuous run: ok=%d pre=%d features never migrated=%s" % (st["ok"], st["pre"], missing))

    samples = []
    if ok_runs:
        for line in open(ok_runs[0]["trace"]):
            if '"e":"case"' in line or '"e":"mig"' in line or '"e":"open"' in line:
                samples.append(json.loads(line) if len(line) < 1500 else line[:300])
            if len(samples) >= 6:
                break
    cov = {
        "programs": st["cases"], "disagreements_checked": st["cases"], "samples": samples,
        "states": st["states"], "transitions": st["transitions"],
        "traces_validated_against_impl": st["traces"],
        "evaluations": st["cases"] * len(INV), "distinct_nontrivial": st["ok"],
        "model_states": mc_states, "model_faults_caught": caught,
        "sources": st["sources"], "migrations_ok": st["ok"], "migrations_refused": st["failed"],
        "families": fams, "features_of_migrated_sources": feats, "refusals": errs,
        "existing_destination_cases": st["pre"], "cli_cases": st["cli"],
        "destination_fault_cases": st["faults"], "destination_fault_refusals": st["fault_refused"],
        "cli": "feox-migrate run" if cli else "feox-migrate not built (target/release/feox-migrate absent): CLI cases skipped",
        "opt_in_migrations_over_legacy_markers": st["marker_ok"], "conformance_deviations": st["deviations"],
        "rule": "one program = one call of the real migrate() (or feox-migrate) on one legacy image with one "
                "setting of the opt-in and of the destination (absent / created before / created during the call / one "
                "failing device call); "
                "images come from seeded workloads on real v1/v2 stores (closed and crashed, preferring ACTIVE "
                "journals and pending markers), from the independent encoder (duplicates, expired winners, "
                "multi-block records, legacy markers, pending markers, half-written journaled extents, ties) and "
                "from large multi-batch sources (summary facts only); source and destination are decoded by the "
                "independent reader and TLC evaluates per case: Recover(dst, TTL off) = RecoverRO(src) per key as "
                "generation (key, value, timestamp, expiry) with no other generation present, the real store "
                "opening dst agrees (TTL off and on), failure leaves no destination and no temporary file, "
                "source bytes unchanged, an existing destination refused and byte-identical, ambiguous markers "
                "refused unless opted in, destination a settled v3 file with exact metadata",
    }
    return {"level": "translation_validation", "coverage": cov, "violations": violations,
            "assumptions": ["byte-level fidelity rests on the independent decoder harness/src/layout.rs (trusted "
                            "base, validated by `fxv layout-selftest`)",
                            "destination failures are single injected device-call failures (fault hook, forced "
                            "synchronous batch path); a crash of the migrating process itself is out of scope",
                            "large sources are judged by content comparison in the harness, not per record by TLC"]}


def replay(path):
    rd = v.run_dir("c15_replay")
    if path.endswith(".json"):
        a = json.load(open(path))
        fxv = v.build_harness()
        res = run_jobs(fxv, rd, [("replay", a["args"])])
        path = res[0]["trace"]
    r = validate(rd, path, INV)
    if r.violation and r.violation.startswith("invariant"):
        inv, what = describe(r, path)
        print(what)
        print("VIOLATION property=%s replay=%s" % (PROP, path))
        return 1
    v.tlc_ok(r, "TraceMigration(replay)")
    print("trace accepted")
    return 0

"""C08 — reads racing with flush, retirement and reuse return only genuine values.

Persistent stores on devices small enough that freed blocks are reused at once.  Reader programs
(get, range, CAS, increment, TTL-only update on an OFFLOADED value) run against writer / deleter /
flusher programs under the controlled scheduler (every interleaving at scheduling-point
granularity, preemption bounded; the flush caller executes the retirement itself) and free-running.
Two specifications judge each run: LinTrace.tla (every returned value was the key's value at some
moment of the call, or not-found / the transient stale-extent error while the key was being
rewritten) and PinTrace.tla (no device write to blocks a pinned reader reads lies inside its pin)."""
import json
import os
import re
import random

import vcommon as v
import concengine as ce
from checks.c07 import collect
from crashengine import mc_model as ce_mc

PROP = "C08"
E9 = ce.E9
NOW = ce.NOW
BIG1 = {"k": "b", "id": 4, "len": 5000, "n": 0}     # two blocks
BIG2 = {"k": "b", "id": 5, "len": 6000, "n": 0}
ONE1 = {"k": "b", "id": 6, "len": 900, "n": 0}      # one block
ONE2 = {"k": "b", "id": 7, "len": 1200, "n": 0}
CTR = {"k": "i", "id": 0, "len": 8, "n": 5}


def family():
    progs = []
    for cache in (False, True):
        cfg = {"pers": True, "ttl": True, "lim": -1, "cache": cache, "blocks": 24}
        for (va, vb, tag) in ((BIG1, BIG2, "multi"), (ONE1, ONE2, "single")):
            init = [{"op": "insert", "k": 1, "v": va, "auto": False, "tsv": NOW - 10 * E9}, {"op": "flush"}]
            readers = {
                "get": [{"op": "get", "k": 1}],
                "range": [{"op": "range", "lo": 1, "hi": 2, "lim": 3}],
                "cas": [{"op": "cas", "k": 1, "x": va, "v": ONE2}],
                "ttl": [{"op": "update_ttl", "k": 1, "ttlv": 50}, {"op": "flush"}],
            }
            writers = {
                "del_reuse": [{"op": "delete", "k": 1}, {"op": "flush"}, {"op": "insert", "k": 2, "v": vb}, {"op": "flush"}],
                "update": [{"op": "insert", "k": 1, "v": vb}, {"op": "flush"}],
                "ttl_flush": [{"op": "update_ttl", "k": 1, "ttlv": 70}, {"op": "flush"}],
            }
            for rn, r in readers.items():
                for wn, w in writers.items():
                    progs.append(("%s_%s_%s_%s" % (tag, "c" if cache else "n", rn, wn),
                                  {"cfg": cfg, "keys": ["k1", "k2"], "init": init, "threads": [r, w]}))
            # the key's current generation is DEFERRED (TTL-only update of an offloaded value, not yet
            # flushed): readers are served from the predecessor's extent while the flush writes the new
            # generation, retires the predecessor and another key reuses its blocks
            dinit = init + [{"op": "update_ttl", "k": 1, "ttlv": 90}]
            for rn in ("get", "range", "cas"):
                progs.append(("deferred_%s_%s_%s" % (tag, "c" if cache else "n", rn),
                              {"cfg": cfg, "keys": ["k1", "k2"], "init": dinit,
                               "threads": [readers[rn], [{"op": "flush"}, {"op": "insert", "k": 2, "v": vb}, {"op": "flush"}]]}))
        # device completely full: a TTL-only update cannot be written (its flush fails), the key keeps being
        # served from the predecessor's extent, which must not be retired while the deferred generation
        # is not durable (two flushed generations of k1 first: the older one is retired)
        b2 = {"k": "b", "id": 8, "len": 5200, "n": 0}
        fill2 = {"k": "b", "id": 9, "len": 5000, "n": 0}
        fill4 = {"k": "b", "id": 10, "len": 13500, "n": 0}
        finit = [{"op": "insert", "k": 1, "v": BIG1, "auto": False, "tsv": NOW - 10 * E9}, {"op": "flush"},
                 {"op": "insert", "k": 1, "v": b2, "auto": False, "tsv": NOW - 9 * E9}, {"op": "flush"},
                 {"op": "insert", "k": 2, "v": fill2, "auto": False, "tsv": NOW - 9 * E9},
                 {"op": "insert", "k": 3, "v": fill4, "auto": False, "tsv": NOW - 9 * E9}, {"op": "flush"}]
        for rn, r in (("get", [{"op": "get", "k": 1}, {"op": "get", "k": 1}]),
                      ("range", [{"op": "range", "lo": 1, "hi": 1, "lim": 2}, {"op": "get", "k": 1}])):
            progs.append(("fulldev_%s_%s" % ("c" if cache else "n", rn),
                          {"cfg": cfg, "keys": ["k1", "k2", "k3"], "init": finit,
                           "threads": [r, [{"op": "update_ttl", "k": 1, "ttlv": 90}, {"op": "flush"}, {"op": "flush"}]]}))
        # counters: increment reads the offloaded value
        init = [{"op": "insert", "k": 1, "v": CTR, "auto": False, "tsv": NOW - 10 * E9}, {"op": "flush"}]
        progs.append(("incr_%s" % ("c" if cache else "n"),
                      {"cfg": cfg, "keys": ["k1", "k2"], "init": init,
                       "threads": [[{"op": "incr", "k": 1, "d": 1}], [{"op": "delete", "k": 1}, {"op": "flush"},
                                                                       {"op": "insert", "k": 2, "v": ONE1}, {"op": "flush"}]]}))
    # the NEIGHBOUR of a retired extent: k1's record fills its last block exactly (or ends a few bytes short of it)
    # in the header size of the device's format (v1: 22 bytes + key, v2/v3: 30 bytes + key); k2 lives in the block
    # right behind it and a reader holds k2's extent pinned while k1 is deleted / replaced and its extent retired
    # and reused.  Nothing may be written into k2's blocks, k2 stays readable.
    for fmt in (1, 2, 3):
        hdr = 22 if fmt == 1 else 30
        for short in (0, 5):
            exact = {"k": "b", "id": 11, "len": 4096 - hdr - 2 - short, "n": 0}
            cfg = {"pers": True, "ttl": fmt != 1, "lim": -1, "cache": False, "blocks": 24, "fmt": fmt}
            init = [{"op": "insert", "k": 1, "v": exact, "auto": False, "tsv": NOW - 10 * E9}, {"op": "flush"},
                    {"op": "insert", "k": 2, "v": ONE1, "auto": False, "tsv": NOW - 10 * E9}, {"op": "flush"}]
            for wn, w in (("del", [{"op": "delete", "k": 1}, {"op": "flush"}, {"op": "insert", "k": 3, "v": ONE2}, {"op": "flush"}]),
                          ("upd", [{"op": "insert", "k": 1, "v": ONE2}, {"op": "flush"}])):
                progs.append(("neigh_v%d_%d_%s" % (fmt, short, wn),
                              {"cfg": cfg, "keys": ["k1", "k2", "k3"], "init": init,
                               "points": ["get_read", "rd_pinned", "rd_sector", "ret_device", "ret_release", "resolve_retry"],
                               "threads": [[{"op": "get", "k": 2}, {"op": "get", "k": 2}], w]}))
    return progs


def late_pin_family():
    """A reader that looked the generation up BEFORE it was superseded reaches its pin only after the
    retirement pass has counted the readers: the pin must be refused (or the markers wait).  Three
    preemptions, only at the points around the lookup, the pin, and the marker write."""
    progs = []
    points = ["get_read", "resolve_cache", "resolve_retry", "rd_pinned", "rd_sector", "ret_device", "ret_release", "range_slot", "cas_read"]
    for cache in (False, True):
        cfg = {"pers": True, "ttl": True, "lim": -1, "cache": cache, "blocks": 24}
        for (va, vb, tag) in ((BIG1, BIG2, "multi"), (ONE1, ONE2, "single")):
            init = [{"op": "insert", "k": 1, "v": va, "auto": False, "tsv": NOW - 10 * E9}, {"op": "flush"}]
            for rn, r in (("get", [{"op": "get", "k": 1}]), ("range", [{"op": "range", "lo": 1, "hi": 2, "lim": 3}])):
                for wn, w in (("delete", [{"op": "delete", "k": 1}, {"op": "flush"}]),
                              ("update", [{"op": "insert", "k": 1, "v": vb}, {"op": "flush"}])):
                    progs.append(("latepin_%s_%s_%s_%s" % (tag, "c" if cache else "n", rn, wn),
                                  {"cfg": cfg, "keys": ["k1", "k2"], "init": init, "points": points, "threads": [r, w]}))
                    # the same race at the granularity of the extent word itself (hook: a scheduling point
                    # after every load of the word): the reader stands between loading the word and its
                    # compare-exchange while the retirement pass sets the bit and counts the readers
                    progs.append(("wordpin_%s_%s_%s_%s" % (tag, "c" if cache else "n", rn, wn),
                                  {"cfg": cfg, "keys": ["k1", "k2"], "init": init,
                                   "points": ["ext_load", "rd_pinned", "ret_device", "ret_release"], "threads": [r, w]}))
    return progs


def run_pin(rd, pinfile):
    return v.run_tlc("PinTrace", "PinTrace.cfg", rd, workers=1, timeout=900, env_extra={"TRACE": pinfile},
                     depth_first=True, coverage=False, xmx="4g")


def run(tier, seed):
    rd = v.run_dir("c08")
    fxv = v.build_harness()
    rng = random.Random(seed)
    viol = []
    st = {"traces": 0, "states": 0, "transitions": 0, "schedules": 0, "stalls": 0, "events": 0}
    # ---- design level: the pin / retirement / reuse protocol (Pin.tla over PinProto.tla), exhaustive
    mc = ce_mc(rd, "Pin", "MCPin_quick.cfg" if tier == "quick" else "MCPin.cfg", workers=4 if tier == "quick" else 8)
    if mc.violation:
        viol.append({"what": "model: " + mc.violation, "replay": v.save_replay("c08", "mc_pin.out", mc.out[-6000:]), "key": "mc"})
    # the orderings the protocol rests on: each mutation of the model must be found
    muts = ["BitBeforeCheck"] if tier == "quick" else ["BitBeforeCheck", "AcquireRefusesRetired", "NoDefence"]
    for m in muts:
        ce_mc(rd, "Pin", "MCPin_mut_%s.cfg" % m, workers=2, expect_violation=True, timeout=600)
    if tier != "quick":
        live = v.run_tlc("Pin", "MCPin_live.cfg", rd, workers=4, timeout=1800, coverage=False, xmx="8g")
        v.tlc_ok(live, "Pin(live)")
        if live.violation:
            viol.append({"what": "model: liveness " + live.violation, "replay": v.save_replay("c08", "mc_pin_live.out", live.out[-6000:]), "key": "mc live"})
        st["states"] += live.distinct
    st["states"] += mc.distinct
    st["transitions"] += mc.generated
    fam = family()
    if tier == "quick":
        rng.shuffle(fam)
        keep = ("deferred_", "fulldev_", "neigh_v1_0", "neigh_v2_0", "neigh_v3_5")
        fam = [x for x in fam if x[0].startswith(keep)] + [x for x in fam if not x[0].startswith(keep)][:14]
    groups = [fam[i:i + 2] for i in range(0, len(fam), 2)]
    late = late_pin_family()
    if tier == "quick":
        late = [x for x in late if "_n_" in x[0]]
    n_std = len(groups)
    groups += [late[i:i + 2] for i in range(0, len(late), 2)]
    shm = v.shm_dir("c08")

    def one(arg):
        gi, group = arg
        pf = os.path.join(rd, "rw_%d.prog" % gi)
        with open(pf, "w") as fh:
            for name, p in group:
                fh.write(json.dumps(p) + "\n")
        trace = os.path.join(rd, "rw_%d.ndjson" % gi)
        pin = os.path.join(rd, "rw_%d.pin.ndjson" % gi)
        if os.path.exists(pin):
            os.remove(pin)
        rc, so, se = v.run_cmd([fxv, "conc", "--mode", "dfs", "--prog", pf, "--out", trace, "--pinout", pin,
                                "--maxsched", ("150" if gi >= n_std else "40") if tier == "quick" else "250",
                                "--preempt", "3" if gi >= n_std else "2", "--dir", shm],
                               timeout=900)
        info = {}
        for line in so.splitlines():
            try:
                info.update(json.loads(line))
            except Exception:
                pass
        return {"trace": trace, "pin": pin, "rc": rc, "info": info, "stderr": v.clip_stderr(se, 1500), "prog": pf}
    try:
        res = v.parallel_map(one, list(enumerate(groups)), jobs=8)
        ok = collect(PROP, res, rd, ["Linearizable", "SourceKept"], viol, st)
        free = []
        for i in range(3 if tier == "quick" else 16):
            free.append(("free_%d" % i, ["--seed", str(rng.randrange(1 << 30)), "--threads", "3", "--ops", "20",
                                         "--keys", "2", "--rounds", "6", "--pers", "1", "--blocks", "28",
                                         "--cache", str(i % 2), "--pinout", os.path.join(rd, "free_%d.pin.ndjson" % i)]))
        fres = ce.run_free(fxv, rd, free)
        okf = collect(PROP, fres, rd, ["Linearizable", "SourceKept"], viol, st)
    finally:
        import shutil
        shutil.rmtree(shm, ignore_errors=True)
    pins = [x["pin"] for x in ok] + [os.path.join(rd, x["tag"] + ".pin.ndjson") for x in okf]
    pin_events = 0
    pinned_reads = 0
    for pf, r in v.parallel_map(lambda p: (p, run_pin(rd, p)) if os.path.exists(p) else (p, None), pins, jobs=8):
        if r is None:
            continue
        pin_events += r.distinct
        pinned_reads += sum(1 for line in open(pf) if '"e":"pread"' in line)
        st["states"] += r.distinct
        st["transitions"] += r.generated
        if r.violation and r.violation.startswith("invariant"):
            keep = v.save_replay("c08", os.path.basename(pf), open(pf).read())
            if "RetireProtocol" in r.violation:
                m = re.findall(r'pflags = (\{[^}]*\})', r.out)
                viol.append({"what": "retirement decided to overwrite or reuse an extent a reader still holds: %s %s (%s)"
                                     % (r.violation, m[-1] if m else "", os.path.basename(pf)),
                             "replay": keep, "key": "pin protocol %s" % (m[-1] if m else "")})
            else:
                viol.append({"what": "device blocks overwritten while a reader held them pinned (%s)" % os.path.basename(pf),
                             "replay": keep, "key": "pin overwrite"})
        elif r.violation:
            raise v.ToolError("PinTrace: " + r.out[-400:])
        else:
            v.tlc_ok(r, "PinTrace")
    if pinned_reads == 0:
        raise v.ToolError("vacuity: no pinned disk read happened in any run")
    sample = []
    if ok:
        for line in open(ok[0]["trace"]):
            if '"e":"mem"' not in line:
                sample.append(line.strip()[:200])
            if len(sample) >= 8:
                break
    cov = {
        "states": st["states"], "transitions": st["transitions"],
        "traces_validated_against_impl": st["traces"] + len(pins),
        "evaluations": st["schedules"], "distinct_nontrivial": st["schedules"],
        "rule": "one case = one schedule of a reader program (get / range / CAS / increment / TTL-only update "
                "of an offloaded single- or multi-block value, cache on and off) against a writer program "
                "(delete+flush+reuse by another key, update+flush, TTL update+flush) on a 8-block data area, "
                "or one free-running round; distinct by (program, schedule)",
        "samples": sample, "pinned_disk_reads": pinned_reads, "pin_trace_events": pin_events,
        "stalled_schedules": st["stalls"],
    }
    # story: the TTL of an offloaded value is renewed AGAIN while the write-behind worker has the first renewal's
    # generation in hand (both renewals borrow bytes that live only in the predecessor's extent): reads keep returning
    # the value, the key stays in range scans, every flush succeeds, the expiry after the reopen is the second renewal's
    import seqengine as _sq
    _sv, _sn, _sst = _sq.run_stories(PROP, fxv, rd, "renewstory", 2 if tier == "quick" else 8,
                                     "TTL renewed twice while the first renewal was being written")
    viol = viol + _sv
    # free-running executions with several shards / workers: a reader keeps its pin for SECONDS while flush() asks for the
    # retirement of the deleted generation about a thousand times a second; Coord.tla's rule for a retirement pass (what a
    # reader pins stays in the queue) judged on the recorded events (TraceCoord.tla: RetireRespectsPins)
    import coordengine as _co
    _cv, _ccov = _co.part(PROP, tier, rng, fxv, rd)
    viol = viol + _cv
    cov["coord"] = _ccov
    return {"level": "model_checking", "coverage": cov, "violations": viol,
            "assumptions": ["pin / unpin / pread / write-begin / write-end events are logged strictly inside the "
                            "real intervals (hooks)", "background flush workers run unsteered"]}


def replay(path):
    import coordengine as _co
    if _co.is_coord(path):
        return _co.replay_main(PROP, path)
    import seqengine as _sq
    if _sq.is_story(path):
        return _sq.replay_story(PROP, path)
    rd = v.run_dir("c08_replay")
    if path.endswith(".pin.ndjson"):
        r = run_pin(rd, path)
        if r.violation:
            print("VIOLATION property=C08 replay=%s" % path)
            return 1
        return 0
    r = ce.validate(rd, path, ["Linearizable", "SourceKept"])
    if r.violation:
        idx, fl, hist = ce.explain(r, path)
        print("rejected flags=%s at %s: %s" % (fl, idx, ce.brief(hist)))
        print("VIOLATION property=C08 replay=%s" % path)
        return 1
    return 0

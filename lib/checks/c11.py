"""C11 — expiry is exact: never visible after, never lost before, stable over restart.
Sequential part + restart part (virtual clock); the crash part is covered by the crash engine
(see c03/c04) and the sweeper interleavings by the schedule engine (c07)."""
import random

import vcommon as v
import seqchecks as q
from checks.c01 import q_replay

PROP = "C11"
INV = ["ExpiryExact"]
MCINV = ["NoUseAfterExpiry", "NoEarlyLoss", "ExpiryExact", "TtlKeepsValue"]


def run(tier, seed):
    rd = v.run_dir("c11")
    fxv = v.build_harness()
    rng = random.Random(seed)
    mc = [q.mc_store(rd, "MCStore_k1.cfg", MCINV)]
    if tier == "thorough":
        mc.append(q.mc_store(rd, "MCStore_k1pers.cfg", MCINV))
    for r in mc:
        if r.violation:
            p = v.save_replay("c11", "mc.out", r.out)
            return {"level": "model_checking", "coverage": {"evaluations": 1, "distinct_nontrivial": 2},
                    "violations": [{"what": "model: " + r.violation, "replay": p, "key": "mc"}]}
    ttl_cfgs = [c for c in q.CONFIGS if "--ttl" in c[1] and c[1][c[1].index("--ttl") + 1] == "1"]
    n, steps = (20, 450) if tier == "quick" else (200, 900)
    jobs = q.make_jobs(rng, ttl_cfgs, n, steps, extra=["--bias", "ttl"])
    viol, st = q.run_engine(PROP, tier, seed, INV, jobs, rd, fxv)
    # concurrent part: the sweeper and the lazy expiry path racing with writers that renew, replace or
    # re-create the key (LinTrace SweepSafe: only the expired CURRENT generation is ever removed by expiry,
    # and no call returns an expired value)
    import concengine as ce
    from checks.c07 import collect
    cst = {"traces": 0, "states": 0, "transitions": 0, "schedules": 0, "stalls": 0, "events": 0}
    fam = [(n, p) for n, p in ce.pair_family() if n.startswith("expired|") or "|sweep" in n or "sweep|" in n]
    res = ce.run_dfs(fxv, rd, fam, "sweep", maxsched=400 if tier == "quick" else 3000, preempt=2 if tier == "quick" else 3)
    collect(PROP, res, rd, ["SweepSafe", "Linearizable", "NotHidden"], viol, cst)
    # the same family on the design model (StoreConc.tla: sweeper steps sample / guarded removal / accounting,
    # lazy expiry inside increment): every interleaving, replayed on the real store
    from checks.c07 import storeconc_part
    scinfo = storeconc_part(tier, seed, rd, fxv, viol, cst, prop=PROP, inv=["SweepSafe", "Linearizable", "NotHidden"],
                            fam=fam, nsample=12000)
    st["traces"] += cst["traces"]; st["states"] += cst["states"]; st["transitions"] += cst["transitions"]
    st["events"] += cst["events"]
    # offloaded values: a reader overtaken by a replacement whose deadline has already passed (the stale-extent
    # fallback re-reads the current generation: every read path must still apply the expiry test to it)
    efam = ce.expired_update_family()
    if tier == "quick":
        efam = [x for x in efam if "_n_" in x[0]] + [x for x in efam if "_c_get" in x[0]]
    eres = ce.run_dfs(fxv, rd, efam, "expupd", chunk=1, maxsched=60 if tier == "quick" else 400, preempt=2, par=8)
    collect(PROP, eres, rd, ["Linearizable", "SweepSafe"], viol, cst)
    st["traces"] += 0
    # restart part: the newest generation of a key has expired while the store was closed and sits at a LOWER
    # sector than the older generation a crash left unretired: whatever order the scan meets them in, no older
    # generation reappears (RealWindow on the real recovery of such images, TraceDisk.tla; crash engine)
    import os
    import shutil
    import crashengine as cre
    shm = v.shm_dir("c11chunk")
    try:
        ct = os.path.join(rd, "expired_newest.ndjson")
        rc, so, se = v.run_cmd([fxv, "chunkrec", "--dir", shm, "--out", ct, "--keys", "24" if tier == "quick" else "120",
                                "--cc", "3"], timeout=600)
    finally:
        shutil.rmtree(shm, ignore_errors=True)
    if rc != 0:
        raise v.ToolError("fxv chunkrec failed: " + se[-400:])
    r = cre.validate(rd, ct, ["RealOpens", "RealWindow", "RealCount"], timeout=1800)
    st["states"] += r.distinct
    st["transitions"] += r.generated
    st["traces"] += 1
    if r.violation and r.violation.startswith("invariant"):
        what, key, idx = cre.classify_violation(r, ct)
        keep = v.save_replay("c11", "expired_newest.ndjson", open(ct).read())
        viol.append({"what": "after a restart past the expiry of the newest generation: " + what[:500], "replay": keep,
                     "key": "expired-newest " + r.violation})
    elif r.violation:
        raise v.ToolError("TraceDisk(expired newest): " + r.out[-400:])
    else:
        v.tlc_ok(r, "TraceDisk(expired newest)")
    cov = q.coverage_dict(
        st, sum(r.distinct for r in mc), sum(r.generated for r in mc),
        "one trace = one seeded TTL-heavy program (TTL writes, update_ttl/persist, clock ticks across "
        "expiry instants incl. the exact instant, sweeps, flush, clean reopen with the virtual clock) "
        "on a TTL-enabled store (memory, persistent v2/v3, cache on/off); distinct by content hash",
        q.sample_events(st["sample_trace"]), extra={"concurrent_schedules": cst["schedules"], "storeconc": scinfo})
    # story: the TTL of an offloaded value is renewed AGAIN while the write-behind worker has the first renewal's
    # generation in hand (both renewals borrow bytes that live only in the predecessor's extent): reads keep returning
    # the value, the key stays in range scans, every flush succeeds, the expiry after the reopen is the second renewal's
    import seqengine as _sq
    _sv, _sn, _sst = _sq.run_stories(PROP, fxv, rd, "renewstory", 2 if tier == "quick" else 8,
                                     "TTL renewed twice while the first renewal was being written")
    viol = viol + _sv
    return {"level": "model_checking", "coverage": cov, "violations": viol,
            "assumptions": ["virtual clock (hook)", "sweeper driven explicitly (verif_sweep_once)"]}


def replay(path):
    import seqengine as _sq
    if _sq.is_story(path):
        return _sq.replay_story(PROP, path)
    import os
    if os.path.basename(path).startswith("expired_newest"):
        import crashengine as cre
        return cre.replay(PROP, path, ["RealOpens", "RealWindow", "RealCount"])
    return q_replay(path, INV)

"""C05 — each data block has exactly one owner or is free; freed space is reusable."""
import json
import random

import os
import vcommon as v
import crashengine as ce

PROP = "C05"
INV = ["Partition", "MetaMatches", "NoUnknownRegion", "RealCount", "RealPartition", "RealFreeNotLive", "OutageHeals"]


def run(tier, seed):
    rd = v.run_dir("c05")
    fxv = v.build_harness()
    rng = random.Random(seed)
    jobs = []
    n = 10 if tier == "quick" else 60
    for i in range(n):
        jobs.append(("p%d" % i, ["--seed", str(rng.randrange(1 << 30)), "--steps", str(rng.choice([60, 90, 120])),
                                 "--fmt", str([3, 3, 2, 1][i % 4]), "--blocks", str(rng.choice([36, 40, 48])),
                                 "--cpus", str(rng.choice([2, 4, 8])), "--keys", str(rng.choice([4, 5, 6])),
                                 "--ttl", "1", "--end", "drop", "--flushpct", "14",
                                 "--maximages", "300" if tier == "quick" else "1500", "--refill", "1"]
                    + (["--edges", "60"] if i % 4 == 3 else [])))
    for i in range(4 if tier == "quick" else 24):   # v1 devices, record sizes at block boundaries (the v1 header is 8 bytes shorter)
        jobs.append(("v1edge%d" % i, ["--seed", str(rng.randrange(1 << 30)), "--steps", "50", "--fmt", "1", "--blocks", str(rng.choice([26, 30, 34])),
                                      "--cpus", "2", "--keys", "3", "--ttl", "0", "--end", "drop", "--flushpct", "22", "--edges", "85",
                                      "--maximages", "900"]))
    for i in range(4 if tier == "quick" else 24):   # every record batch fails until the device heals: scrub + release of mixed-size batches
        jobs.append(("outage%d" % i, ["--seed", str(rng.randrange(1 << 30)), "--steps", str(rng.choice([20, 30])), "--fmt", "3",
                                      "--blocks", str(rng.choice([36, 40])), "--cpus", "2", "--keys", str(rng.choice([4, 5])), "--ttl", "1",
                                      "--end", "drop", "--flushpct", "25", "--forcesync", "1", "--faultat", str(rng.choice([0, 0, 40])),
                                      "--faultmode", "3", "--maximages", "100", "--cc", "0"]))
    jobs += ce.full_device_jobs(rng, 8 if tier == "quick" else 48, maximages="300" if tier == "quick" else "1500")
    jobs += ce.huge_extent_jobs(rng, 1 if tier == "quick" else 6)
    jobs += ce.huge_reuse_jobs(rng, 2 if tier == "quick" else 16)
    jobs += ce.huge_pair_jobs(rng, 3 if tier == "quick" else 9)
    # MC: write-behind / journal / retirement protocol, every crash image of every reachable state
    mc_viol = []
    mcs = [ce.mc_model(rd, "MCWriteBehind", "MCWriteBehind_quick_warm.cfg" if tier == "quick" else "MCWriteBehind_full_warm.cfg",
                       ["Partition", "ExactAtQuiescence", "MetaMatches"])]
    mc_states = sum(r.distinct for r in mcs)
    mc_trans = sum(r.generated for r in mcs)
    for r in mcs:
        if r.violation:
            mc_viol.append({"what": "model: " + r.violation, "replay": v.save_replay(PROP.lower(), "mc.out", r.out[-5000:]), "key": "mc"})
    viol, st, traces = ce.run_and_validate(PROP, fxv, rd, jobs, INV)
    # refill scenario verdicts are recorded by the workload itself
    refills = 0
    for t in traces:
        for line in open(t):
            if '"e":"refill"' in line:
                e = json.loads(line)
                refills += 1
                if not e["ok"]:
                    keep = v.save_replay("c05", t.split("/")[-1], open(t).read())
                    viol.append({"what": "refill after deleting everything: %s" % json.dumps(e)[:300],
                                 "replay": keep, "key": "refill"})
    cov = {
        "states": st["states"] + mc_states, "transitions": st["transitions"] + mc_trans, "mc_states": mc_states,
        "traces_validated_against_impl": st["traces"],
        "evaluations": st["flushes"] + st["images_real"], "distinct_nontrivial": st["traces"],
        "rule": "one trace = one seeded churn workload with mixed extent sizes (1-3 blocks) on a 20-32 block "
                "data area; at every acknowledged flush TLC checks the exact partition (live extents pairwise "
                "disjoint, inside the data area, disjoint from and complementary to the free runs, each extent's "
                "head block is the generation the store says) and the persisted counters; every recovered crash "
                "image is checked for len() = keys exposed; the run ends with the refill scenario",
        "samples": ce.sample_of(traces[0]) if traces else [],
        "acknowledged_flushes": st["flushes"], "refill_scenarios": refills,
    }
    # "flush acknowledged" is a quiescent point for every worker schedule: while another thread's flush still
    # has the retirements in hand (a reader holds the superseded generation), no flush() may return Ok with
    # free + live blocks short of the data area (FlushAckComplete, LinTrace; directed schedules)
    import concengine as cc
    from checks.c07 import collect
    cst = {"traces": 0, "states": 0, "transitions": 0, "schedules": 0, "stalls": 0, "events": 0}
    fam = cc.ack_flush_family()
    if tier == "quick":
        fam = [x for x in fam if "_multi_range_" in x[0] or "_single_get_" in x[0]]
    res = cc.run_dfs(fxv, rd, fam, "ackflush", chunk=3, maxsched=4, preempt=3, par=8)
    collect(PROP, res, rd, ["FlushAckComplete"], viol, cst)
    cov["ack_flush_schedules"] = cst["schedules"]
    viol = mc_viol + viol
    # story: a key is deleted while the write-behind worker has its FIRST write in hand (sector not yet published):
    # the extent that write lands in must end up owned by nobody's index entry AND be retired - a deleted key that is
    # back after the clean reopen is an extent that was neither freed nor owned by a live record
    import seqengine as _sq
    _sv, _sn, _sst = _sq.run_stories(PROP, fxv, rd, "inflightstory", 2 if tier == "quick" else 10,
                                     "blocks owned by a record that is no longer indexed (deleted while its first write was in flight): "
                                     "never freed, the key is back after the reopen")
    viol = viol + _sv
    cov["inflight_stories"] = _sn
    return {"level": "model_checking", "coverage": cov, "violations": viol,
            "assumptions": ["snapshot accessor (hook) exposes live records' sector/length and the free runs"]}


def replay(path):
    import seqengine as _sq
    if _sq.is_story(path):
        return _sq.replay_story(PROP, path)
    if os.path.basename(path).startswith("ackflush_"):
        import concengine as cc
        r = cc.validate(v.run_dir("c05_replay"), path, ["FlushAckComplete"])
        if r.violation:
            print("VIOLATION property=%s replay=%s" % (PROP, path))
            return 1
        return 0
    return ce.replay(PROP, path, INV)

"""setup: build the harness from /repo's current tree (offline) and parse every specification."""
import glob
import os
import subprocess

import vcommon as v


def run():
    v.build_harness()
    bad = 0
    for tla in sorted(glob.glob(os.path.join(v.SPEC, "*.tla"))):
        p = subprocess.run(["java", "-cp", v.JAR + ":" + v.DEPS, "tla2sany.SANY", os.path.basename(tla)],
                           cwd=v.SPEC, stdout=subprocess.PIPE, stderr=subprocess.STDOUT, text=True)
        if p.returncode != 0 or "Semantic errors" in p.stdout or "Parse Error" in p.stdout \
                or "Fatal errors" in p.stdout:
            print(p.stdout[-1500:])
            print("SANY failed for", tla)
            bad += 1
    if bad:
        return 2
    print("setup ok")
    return 0

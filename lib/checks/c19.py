"""C19 — write-behind is bounded: accepted writes reach the device without explicit flush."""
import json
import random

import vcommon as v
import crashengine as ce
import concengine as cc
from checks.c07 import collect

PROP = "C19"
INV = ["CrashOpens", "CrashWindow", "RealOpens", "RealWindow", "Partition", "AtAckJournalClear"]
SETTLE_MS = 3000      # documented figure: 100 ms flush interval + I/O time; bound is 30x that


def run(tier, seed):
    rd = v.run_dir("c19")
    fxv = v.build_harness()
    rng = random.Random(seed)
    # odd counts too: shards and workers are both derived from the visible CPUs and must agree
    shard_cpus = [2, 3, 5, 16] if tier == "quick" else [2, 3, 4, 5, 6, 7, 8, 9, 10, 11, 12, 13, 14, 15, 16]
    jobs = []
    for cpus in shard_cpus:
        for variant in (["small", "burst"] if tier == "quick" else ["small", "small2", "burst", "busy"]):
            args = ["--seed", str(rng.randrange(1 << 30)), "--cpus", str(cpus), "--noflush", "1",
                    "--settle", str(SETTLE_MS), "--cc", "0", "--keys", "64", "--blocks", "260",
                    "--ttl", "1", "--end", "leak", "--maximages", "50"]
            if variant == "burst":
                args += ["--steps", "30", "--burst", "700"]
            elif variant == "busy":
                args += ["--steps", "400"]
            else:
                args += ["--steps", str(rng.choice([60, 120]))]
            jobs.append(("c%d_%s" % (cpus, variant), args))
    # one write per coordinator period on stores with odd and even CPU counts: idle neighbouring shards
    for i, cpus in enumerate([3, 5, 7, 2] if tier == "quick" else [3, 5, 7, 9, 11, 13, 15, 2, 4, 6]):
        jobs.append(("trickle%d" % cpus, ["--seed", str(rng.randrange(1 << 30)), "--cpus", str(cpus), "--noflush", "1",
                                           "--settle", str(SETTLE_MS), "--cc", "0", "--keys", "24", "--blocks", "120", "--ttl", "0",
                                           "--end", "leak", "--maximages", "30", "--steps", "14", "--trickle", "230"]))
        # the same with threads held up for a quarter of a second now and then (every thread of the store passes
        # scheduling points, the periodic coordinator included): a pause must not end the write-behind
        if cpus in (2, 3, 8):
            jobs.append(("stalled%d" % cpus, ["--seed", str(rng.randrange(1 << 30)), "--cpus", str(cpus), "--noflush", "1",
                                               "--settle", str(SETTLE_MS), "--cc", "0", "--keys", "24", "--blocks", "120", "--ttl", "0",
                                               "--end", "leak", "--maximages", "30", "--steps", "14", "--trickle", "230",
                                               "--stallmask", "3", "--stallus", "260000"]))
    # a store that has been idle for a while (several seconds without a call or anything queued), then a handful of
    # small writes: the bound holds however long nothing happened before
    for i, idle in enumerate([7300, 4200] if tier == "quick" else [7300, 4200, 12500, 2300, 17600]):
        jobs.append(("idle%d" % idle, ["--seed", str(rng.randrange(1 << 30)), "--cpus", str([2, 8, 3, 16, 5][i % 5]), "--noflush", "1",
                                       "--settle", str(SETTLE_MS), "--cc", "0", "--keys", "24", "--blocks", "120", "--ttl", "0",
                                       "--end", "leak", "--maximages", "30", "--steps", "10", "--idlefirst", str(idle)]))
    # a device that runs full in the background: writes that could not be allocated wait in their shard;
    # once deletes have made room they must reach the device without any further call
    for i in range(4 if tier == "quick" else 16):
        jobs.append(("squeeze%d" % i, ["--seed", str(rng.randrange(1 << 30)), "--cpus", str([8, 4, 16, 2][i % 4]), "--noflush", "1",
                                       "--settle", str(SETTLE_MS), "--cc", "0", "--keys", "11", "--blocks", "24", "--ttl", "0",
                                       "--end", "leak", "--maximages", "30", "--steps", "0", "--squeeze", "1", "--fmt", str([3, 2][i % 2])]))
    viol, st, traces = ce.run_and_validate(PROP, fxv, rd, jobs, INV)
    # ---- retirement while readers come and go: once the last reader has left, one more flush must
    #      return and leave every superseded generation retired and released (RetireSettled)
    fam = cc.held_reader_family()
    if tier == "quick":
        rng.shuffle(fam)
        fam = [x for x in fam if "_n_get_get_" in x[0]] + [x for x in fam if "_n_get_get_" not in x[0]][:10]
    cst = {"traces": 0, "states": 0, "transitions": 0, "schedules": 0, "stalls": 0, "events": 0}
    res = cc.run_dfs(fxv, rd, fam, "held", chunk=2, maxsched=100 if tier == "quick" else 600, preempt=2, par=12)
    collect(PROP, res, rd, ["RetireSettled"], viol, cst)
    st["states"] += cst["states"]
    st["transitions"] += cst["transitions"]
    # evidence: how many shards/workers each run really had and touched
    shard_info = []
    for t in traces:
        n = sum(1 for line in open(t) if '"e":"call"' in line)
        shard_info.append({"trace": t.split("/")[-1], "accepted_mutations": n})
    cov = {
        "states": st["states"], "transitions": st["transitions"],
        "traces_validated_against_impl": st["traces"],
        "evaluations": st["traces"], "distinct_nontrivial": st["traces"],
        "rule": "one trace = one workload on a store built with 1..8 shards/workers (CPU affinity) that NEVER "
                "calls flush: 64 keys spread over the shards, small bursts and a buffer-filling burst (>1024 "
                "entries into one shard); %d ms after the last call returned the device state reconstructed "
                "from the write log must hold, in EVERY crash image, the latest state of every key (CrashWindow "
                "with ack := everything completed), the journal must be clear, and every superseded or deleted "
                "generation must have been retired and its blocks released (Partition); the image is also "
                "reopened with the real recovery code" % SETTLE_MS,
        "samples": shard_info[:6],
        "held_reader_programs": len(fam), "held_reader_schedules": cst["schedules"], "held_reader_stalls": cst["stalls"],
        "held_reader_rule": "two readers (get / range / CAS) of one offloaded generation against delete / update / TTL "
                            "update + flush, every interleaving with <= 2 preemptions at the points between a "
                            "reader's index lookup and its device read; after the last thread returned one more "
                            "flush() must return (watchdog) and free + live blocks = data area (RetireSettled)",
        "settle_ms": SETTLE_MS, "shard_counts": [c // 2 for c in shard_cpus],
    }
    # story: a fresh key is deleted while the write-behind worker has its first write in hand
    import seqengine as _sq
    _sv, _sn, _sst = _sq.run_stories(PROP, fxv, rd, "inflightstory", 2 if tier == "quick" else 10,
                                     "an accepted delete never reached the device")
    viol = viol + _sv
    # design level, liveness (WriteBehind.tla under weak fairness of worker, start-up and flush caller)
    import crashengine as _ce
    _lv = v.run_tlc("MCWriteBehind", "MCWriteBehind_live.cfg", rd, workers=4, timeout=1200, coverage=False, xmx="8g")
    v.tlc_ok(_lv, "MCWriteBehind(live)")
    if _lv.violation:
        viol = viol + [{"what": "model: the write-behind worker does not drain what was accepted (and the device is not out of space) (%s)" % _lv.violation, "replay": v.save_replay("c19", "mc_live.out", _lv.out[-6000:]), "key": "mc live"}]
    cov["liveness_states"] = _lv.distinct
    # story: a retirement has to wait (a slow reader holds its pin on the deleted key's generation) while small writes
    # go to keys of ALL shards: 2.5 s later every one of them is on the device (the key universe of the history is the
    # probe keys only, hence ResultsMatch alone: the pinned key's own pending delete is not acknowledged)
    import seqengine as _sqp
    _pv, _pn, _pst = _sqp.run_stories(PROP, fxv, rd, "pinstory", 2 if tier == "quick" else 4,
                                      "accepted writes not on the device 2.5 s later while another key's retirement was waiting for a reader",
                                      inv=("ResultsMatch",))
    viol = viol + _pv
    # handshake of the sharded write-behind (shard queues, workers, coordinator, force_flush, close): the design model
    # Coord.tla (every interleaving, switch mutations must fail) and recorded executions with several shards / workers /
    # client threads judged by Coord.tla's own formulas (TraceCoord.tla: DrainAll, TickHonest, NoLag, NothingLost)
    import coordengine as _co
    _cv, _ccov = _co.part(PROP, tier, rng, fxv, rd, design=True)
    viol = viol + _cv
    cov["coord"] = _ccov
    return {"level": "model_checking", "coverage": cov, "violations": viol,
            "assumptions": ["wall-clock bound of 3 s against a documented 100 ms interval (30x margin)",
                            "shard/worker count controlled through sched_setaffinity"]}


def replay(path):
    import coordengine as _co
    if _co.is_coord(path):
        return _co.replay_main(PROP, path)
    import seqengine as _sq
    if _sq.is_story(path):
        return _sq.replay_story(PROP, path)
    return ce.replay(PROP, path, INV)

"""C01 — sequential calls match a last-writer-wins map on every storage tier."""
import random

import vcommon as v
import seqchecks as q

PROP = "C01"
INV = ["ResultsMatch"]


def run(tier, seed):
    rd = v.run_dir("c01")
    fxv = v.build_harness()
    rng = random.Random(seed)
    mc = [q.mc_store(rd, "MCStore_k1.cfg", ["ErrUnchanged", "LWW", "ReadLatest"])]
    if tier == "thorough":
        mc.append(q.mc_store(rd, "MCStore_k1pers.cfg", ["ErrUnchanged", "LWW", "ReadLatest"]))
        mc.append(q.mc_store(rd, "MCStore_k2.cfg", ["ErrUnchanged", "LWW", "ReadLatest"]))
    for r in mc:
        if r.violation:
            p = v.save_replay("c01", "mc.out", r.out)
            return {"level": "model_checking", "coverage": {"evaluations": 1, "distinct_nontrivial": 2},
                    "violations": [{"what": "model: " + r.violation, "replay": p, "key": "mc"}]}
    n, steps = (28, 400) if tier == "quick" else (280, 800)
    jobs = q.make_jobs(rng, q.CONFIGS, n, steps)
    viol, st = q.run_engine(PROP, tier, seed, INV, jobs, rd, fxv)
    cov = q.coverage_dict(
        st, sum(r.distinct for r in mc), sum(r.generated for r in mc),
        "one trace = one seeded program of public calls (all kinds, explicit/automatic timestamps, "
        "TTLs, flush, clean reopen) run on the real store in one of 14 configurations "
        "({memory, persistent v1/v2/v3} x cache x TTL x memory limit x long keys); distinct by "
        "content hash; non-trivial = at least three accepted mutations",
        q.sample_events(st["sample_trace"]))
    return {"level": "model_checking", "coverage": cov, "violations": viol,
            "assumptions": ["virtual clock (hook) drives every time source of the store",
                            "JSON patch restricted to counter documents with test/replace",
                            "counters stay within 32-bit range (TLC integers)"]}


def replay(path):
    return q_replay(path, INV)


def q_replay(path, inv):
    import seqengine as s
    rd = v.run_dir("seq_replay")
    out = s.validate(rd, [path], inv, "replay")
    g = out[0]
    r = g["r"]
    if r.violation:
        t, i, ev, fl = s.explain(g)
        print("rejected: %s flags=%s at event %s: %s" % (r.violation, fl, i, s.short_event(ev)))
        print("VIOLATION property=%s replay=%s" % (PROP, path))
        return 1
    print("trace accepted")
    return 0

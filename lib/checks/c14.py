"""C14 — range queries return exactly the live keys in range, ordered, current values.
Sequential part; scan/writer interleavings are decided by the schedule engine (see c07)."""
import random

import vcommon as v
import seqchecks as q
from checks.c01 import q_replay

PROP = "C14"
INV = ["RangeExact"]


def run(tier, seed):
    rd = v.run_dir("c14")
    fxv = v.build_harness()
    rng = random.Random(seed)
    mc = [q.mc_store(rd, "MCStore_k2.cfg", ["RangeExact"])]
    for r in mc:
        if r.violation:
            p = v.save_replay("c14", "mc.out", r.out)
            return {"level": "model_checking", "coverage": {"evaluations": 1, "distinct_nontrivial": 2},
                    "violations": [{"what": "model: " + r.violation, "replay": p, "key": "mc"}]}
    n, steps = (20, 450) if tier == "quick" else (200, 900)
    jobs = q.make_jobs(rng, q.CONFIGS, n, steps, extra=["--bias", "range"])
    viol, st = q.run_engine(PROP, tier, seed, INV, jobs, rd, fxv)
    # concurrent part: scans racing with inserts/updates/deletes of neighbouring keys (LinTrace RangeStable:
    # stable keys inside the returned window exactly once, keys absent for the whole scan never, genuine values,
    # ascending order; both indexes agree at quiescence)
    import concengine as ce
    from checks.c07 import collect
    cst = {"traces": 0, "states": 0, "transitions": 0, "schedules": 0, "stalls": 0, "events": 0}
    res = ce.run_dfs(fxv, rd, ce.range_family(), "range", maxsched=500 if tier == "quick" else 4000,
                     preempt=2 if tier == "quick" else 3)
    collect(PROP, res, rd, ["RangeStable"], viol, cst)
    # scans longer than the scan's internal intervals (epoch re-pin every 256 entries, preallocation 1024)
    big = ce.bigscan_family(700) + (ce.bigscan_family(1300) if tier != "quick" else [])
    res = ce.run_dfs(fxv, rd, big, "bigscan", chunk=1, maxsched=40 if tier == "quick" else 200, preempt=2)
    collect(PROP, res, rd, ["RangeStable", "Linearizable"], viol, cst)
    # every mutation path updates the ordered index inside the key's critical section, the sweeper and
    # the lazy expiry path included: creators racing with them (both indexes agree at quiescence)
    sfam = [(n, p) for n, p in ce.pair_family() if ("|sweep" in n or "sweep|" in n or n.startswith("expired|"))
            and any(x in n for x in ("ins_", "insb_", "iia", "incr"))]
    if tier == "quick":
        rng.shuffle(sfam)
        sfam = sfam[:60]
    # here the points inside the ordered-index updates are decision points
    tree_points = ["tree_remove", "tree_insert", "tree_publish", "sweep_remove", "sweep_post", "ins_create", "ins_read", "inc_create",
                   "iia_guard", "lazy_guard", "inc_guard"]
    sfam = [(n, dict(p, points=tree_points)) for n, p in sfam]
    res = ce.run_dfs(fxv, rd, sfam, "sweepidx", maxsched=300 if tier == "quick" else 2000, preempt=2)
    collect(PROP, res, rd, ["RangeStable"], viol, cst)
    free = [("free_rng_%d" % i, ["--seed", str(rng.randrange(1 << 30)), "--threads", "3", "--ops", "25", "--keys", "4",
                                 "--rounds", "20"]) for i in range(4 if tier == "quick" else 24)]
    free += [("free_rngp_%d" % i, ["--seed", str(rng.randrange(1 << 30)), "--threads", "3", "--ops", "20", "--keys", "4",
                                  "--rounds", "6", "--pers", "1", "--blocks", "56"]) for i in range(2 if tier == "quick" else 10)]
    # create / delete churn on two keys with a deep ordered index (background keys), tight loops
    free += [("churn_%d" % i, ["--seed", str(rng.randrange(1 << 30)), "--threads", "3", "--ops", "150", "--keys", "2",
                               "--rounds", "12", "--churn", "1", "--background", "20000"])
             for i in range(4 if tier == "quick" else 24)]
    free += [("free_big_%d" % i, ["--seed", str(rng.randrange(1 << 30)), "--threads", "3", "--ops", "14", "--keys", "300",
                                  "--rounds", "4"]) for i in range(2 if tier == "quick" else 10)]
    collect(PROP, ce.run_free(fxv, rd, free), rd, ["RangeStable"], viol, cst)
    # ScanConc.tla: every interleaving of scans against writers / the sweeper over three keys on the design model,
    # each behaviour judged by LinTrace and replayed on the real store (arrivals, items, versions, both indexes)
    import scanengine
    scaninfo = scanengine.part(PROP, tier, seed, rd, fxv, viol, cst, ["RangeStable", "Linearizable"], collect)
    st["traces"] += cst["traces"]; st["states"] += cst["states"]; st["transitions"] += cst["transitions"]
    st["events"] += cst["events"]
    # story: the medium loses its tail under the open store (values on the device only): a scan fails or answers exactly
    import seqengine as _sq
    _sv, _sn, _sst = _sq.run_stories(PROP, fxv, rd, "scanstory", 3 if tier == "quick" else 12,
                                     "a range query over a damaged medium answered with a subset of the live keys", inv=("RangeExact",))
    viol = viol + _sv
    st["traces"] += _sn; st["states"] += _sst
    cov = q.coverage_dict(
        st, sum(r.distinct for r in mc), sum(r.generated for r in mc),
        "one trace = one seeded program with a range_query (bounds: keys, prefixes, extensions, empty, "
        "0xFF.., start > end; limits 0..n+1) after about every third call, with expired and offloaded "
        "entries present; result compared element-wise (keys and values) with the model",
        q.sample_events(st["sample_trace"]), extra={"concurrent_schedules": cst["schedules"], "scanconc": scaninfo})
    return {"level": "model_checking", "coverage": cov, "violations": viol,
            "assumptions": ["bounds are projected to ranks in the (sorted) key universe of the run"]}


def replay(path):
    import seqengine as _sq
    if _sq.is_story(path):
        return _sq.replay_story(PROP, path)
    return q_replay(path, INV)

"""C03 — any crash leaves a file that reopens to authentic, untorn, recent contents."""
import random

import vcommon as v
import crashengine as ce

PROP = "C03"
INV = ce.CRASH_INV + ce.REAL_INV


def jobs_for(rng, tier):
    jobs = []
    n = 14 if tier == "quick" else 100
    for i in range(n):
        fmt = [3, 3, 3, 2, 1][i % 5]
        jobs.append(("w%d" % i, ["--seed", str(rng.randrange(1 << 30)), "--steps", str(rng.choice([25, 35, 45])),
                                 "--fmt", str(fmt), "--blocks", str(rng.choice([40, 44, 52])),
                                 "--cpus", str(rng.choice([2, 2, 4, 8])), "--keys", str(rng.choice([3, 4, 5])),
                                 "--ttl", "1", "--end", rng.choice(["drop", "drop", "leak"]),
                                 "--flushpct", str(rng.choice([14, 14, 6, 3])),
                                 "--maximages", "1500" if tier == "quick" else "4000"] + ["--sessions", str(rng.choice([1, 1, 2, 3]))]))
    jobs += ce.full_device_jobs(rng, 8 if tier == "quick" else 48)
    jobs += ce.wide_batch_jobs(rng, 2 if tier == "quick" else 12)
    jobs += ce.huge_extent_jobs(rng, 1 if tier == "quick" else 6)
    jobs += ce.restart_wide_jobs(rng, 2 if tier == "quick" else 10)
    return jobs


def run(tier, seed):
    rd = v.run_dir("c03")
    fxv = v.build_harness()
    rng = random.Random(seed)
    # MC: write-behind / journal / retirement protocol, every crash image of every reachable state
    mc_viol = []
    mcs = [ce.mc_model(rd, "MCWriteBehind", "MCWriteBehind_quick.cfg" if tier == "quick" else "MCWriteBehind_full.cfg",
                       ["CrashSafe"])]
    ce.mc_model(rd, "MCWriteBehind", "MCWriteBehind_mut_JournalAll.cfg", expect_violation=True, timeout=300)
    if tier != "quick":
        # slot alternation is what makes torn journal writes harmless (sanity: the variant must fail)
        ce.mc_model(rd, "MCWriteBehind", "MCWriteBehind_mut_ClearSlot.cfg", expect_violation=True, timeout=900)
    mc_states = sum(r.distinct for r in mcs)
    mc_trans = sum(r.generated for r in mcs)
    for r in mcs:
        if r.violation:
            mc_viol.append({"what": "model: " + r.violation, "replay": v.save_replay(PROP.lower(), "mc.out", r.out[-5000:]), "key": "mc"})
    viol, st, traces = ce.run_and_validate(PROP, fxv, rd, jobs_for(rng, tier), INV)
    # a crash DURING a recovery is a crash too: a recovery with more than 1024 non-adjacent repairs (journalled in
    # chunks), expired newest generations at lower sectors than their unretired older ones; every durable state of
    # that recovery is recovered again by the real code and must expose no older generation (RealWindow)
    import os
    import shutil
    shm = v.shm_dir("c03chunk")
    try:
        ct = os.path.join(rd, "chunked.ndjson")
        rc, so, se = v.run_cmd([fxv, "chunkrec", "--dir", shm, "--out", ct, "--keys", "1100", "--cc", "3"], timeout=600)
    finally:
        shutil.rmtree(shm, ignore_errors=True)
    if rc != 0:
        raise v.ToolError("fxv chunkrec failed: " + se[-400:])
    cr = ce.validate(rd, ct, ["RealOpens", "RealWindow", "RealCount"], timeout=3000)
    st["states"] += cr.distinct
    st["transitions"] += cr.generated
    if cr.violation and cr.violation.startswith("invariant"):
        what, key, idx = ce.classify_violation(cr, ct)
        keep = v.save_replay("c03", "chunked.args.json", {"cmd": "fxv chunkrec --keys 1100", "info": so[-400:], "what": what[:600]})
        viol.append({"what": "crash between the journal chunks of a recovery: " + what[:500], "replay": keep,
                     "key": "chunked-retirement " + cr.violation})
    elif cr.violation:
        raise v.ToolError("TraceDisk(chunked): " + cr.out[-400:])
    else:
        v.tlc_ok(cr, "TraceDisk(chunked)")
    cov = {
        "states": st["states"] + mc_states, "transitions": st["transitions"] + mc_trans, "mc_states": mc_states,
        "traces_validated_against_impl": st["traces"],
        "evaluations": st["images_real"], "distinct_nontrivial": st["traces"],
        "rule": "one trace = one seeded workload (puts of 1-3 block values incl. values embedding valid "
                "record/marker images, deletes, TTL writes, TTL-only updates, increments, flushes, idle "
                "periods for the periodic flusher, clean drop or abandon) on a fresh v3 device or a legacy "
                "v1/v2 device with 1, 2 or 4 shards. At EVERY device event TLC evaluates CrashOpens/"
                "CrashWindow/CrashNoGhost over every subset of the un-synced blocks (exhaustive up to 6 "
                "units, prefixes/singles/complements beyond); `evaluations` = crash images materialised "
                "and reopened with the real recovery code (RealOpens/RealWindow/RealNoGhost/RealCount)",
        "samples": ce.sample_of(traces[0]) if traces else [],
        "max_unsynced_units": st["max_pending_units"], "generations": st["gens"],
    }
    viol = mc_viol + viol
    return {"level": "model_checking", "coverage": cov, "violations": viol,
            "assumptions": ["device observer sees every write and fsync (checked by the byte-for-byte replay in selftest)",
                            "block-granular loss/reordering of un-synced writes; journal slots and metadata copies atomic",
                            "independent decoder (harness/src/layout.rs) projects bytes to abstract contents"]}


def replay(path):
    return ce.replay(PROP, path, INV)

"""Property checks built on the sequential contract engine (C01, C11, C12, C13, C14, C16)."""
import json
import os
import random
import re
from collections import Counter

import vcommon as v
import seqengine as s

CONFIGS = [
    # (name, args)
    ("mem-ttl", ["--mode", "mem", "--ttl", "1"]),
    ("mem-nottl", ["--mode", "mem", "--ttl", "0"]),
    ("mem-limit", ["--mode", "mem", "--ttl", "1", "--lim", "1500"]),
    ("pers-v3-cache", ["--mode", "pers", "--fmt", "3", "--cache", "1", "--ttl", "1"]),
    ("pers-v3-nocache", ["--mode", "pers", "--fmt", "3", "--cache", "0", "--ttl", "1"]),
    ("pers-v3-nottl", ["--mode", "pers", "--fmt", "3", "--cache", "1", "--ttl", "0"]),
    ("pers-v2-cache", ["--mode", "pers", "--fmt", "2", "--cache", "1", "--ttl", "1"]),
    ("pers-v2-nocache", ["--mode", "pers", "--fmt", "2", "--cache", "0", "--ttl", "0"]),
    ("pers-v1-cache", ["--mode", "pers", "--fmt", "1", "--cache", "1", "--ttl", "1"]),
    ("pers-v1-nocache", ["--mode", "pers", "--fmt", "1", "--cache", "0", "--ttl", "0"]),
    ("pers-v3-limit", ["--mode", "pers", "--fmt", "3", "--cache", "1", "--ttl", "1", "--lim", "9000"]),
    ("mem-longkey", ["--mode", "mem", "--ttl", "1", "--longkey", "1"]),
    ("pers-v3-longkey", ["--mode", "pers", "--fmt", "3", "--cache", "0", "--ttl", "1", "--longkey", "1"]),
    ("pers-v1-longkey", ["--mode", "pers", "--fmt", "1", "--cache", "1", "--ttl", "0", "--longkey", "1"]),
    ("pers-v2-longkey", ["--mode", "pers", "--fmt", "2", "--cache", "0", "--ttl", "1", "--longkey", "1"]),
]


def mc_store(rd, cfgname, invariants, workers=8, timeout=900):
    """Model-check MCStore with the given configuration file and invariant subset."""
    src = open(os.path.join(v.SPEC, cfgname)).read()
    src = re.sub(r"INVARIANTS.*", "INVARIANTS TypeOK " + " ".join(invariants), src, flags=re.S)
    cfg = os.path.join(rd, "mc_" + cfgname)
    open(cfg, "w").write(src)
    r = v.run_tlc("MCStore", cfg, rd, workers=workers, timeout=timeout, coverage=False)
    v.tlc_ok(r, "MCStore(%s)" % cfgname)
    return r


def tag_stats(traces):
    c = Counter()
    tiers = Counter()
    for t in traces:
        for line in open(t):
            try:
                e = json.loads(line)
            except Exception:
                continue
            if e.get("e") == "call":
                c["%s:%s" % (e["op"], e["res"]["tag"])] += 1
                k = e.get("k", 0)
                if e["op"] in ("get", "cas", "incr", "patch") and k:
                    pk = e["post"]["recs"][k - 1]
                    if pk["p"]:
                        tiers["resident" if pk["res"] else ("cached" if pk["cached"] else "disk-only")] += 1
            elif e.get("e") in ("reopen", "tick"):
                c[e["e"]] += 1
    return c, tiers


def nontrivial(trace):
    ok = 0
    for line in open(trace):
        if '"e":"call"' in line and ('"tag":"bool","n":1' in line or '"tag":"unit"' in line
                                     or '"n":1,"tag":"bool"' in line):
            ok += 1
        if ok >= 3:
            return True
    return False


def run_engine(prop, tier, seed, invariants, jobs, rd, fxv, classify=None):
    """Run programs, validate, convert rejections to violations. Returns (violations, stats)."""
    res = s.run_programs(fxv, rd, jobs)
    violations = []
    traces = []
    for x in res:
        if x["rc"] == 0:
            traces.append(x["trace"])
        elif x["rc"] == 3 or "hang" in x["info"]:
            p = v.save_replay(prop.lower(), x["tag"] + ".args.json", {"args": x["args"], "info": x["info"]})
            violations.append({"what": "call did not terminate within the watchdog: %s (args %s)"
                               % (x["info"], " ".join(x["args"])), "replay": p, "key": "hang"})
            if os.path.exists(x["trace"]):
                traces.append(x["trace"])
        elif v.panic_in_code_under_test(x["stderr"]):
            p = v.save_replay(prop.lower(), x["tag"] + ".args.json", {"args": x["args"], "stderr": x["stderr"]})
            violations.append({"what": "panic in the code under test: %s" % x["stderr"][-400:],
                               "replay": p, "key": "panic"})
        else:
            raise v.ToolError("fxv seq failed rc=%s: %s" % (x["rc"], x["stderr"][-600:]))
    traces = [t for t in traces if os.path.exists(t) and os.path.getsize(t) > 0]
    out = s.validate(rd, traces, invariants, prop.lower())
    events = 0
    states = transitions = 0
    for g in out:
        r = g["r"]
        events += g["events"]
        states += r.distinct
        transitions += r.generated
        if r.violation and r.violation.startswith("invariant"):
            t, i, ev, fl = s.explain(g)
            keep = v.save_replay(prop.lower(), os.path.basename(t or g["cat"]),
                                 open(t or g["cat"]).read())
            key = "%s %s" % (r.violation, fl)
            if classify:
                key = classify(t, i, ev, fl, key)
            violations.append({"what": "%s flags=%s at event %s of %s: %s" %
                               (r.violation, fl, i, os.path.basename(t or "?"), s.short_event(ev)),
                               "replay": keep, "key": key})
        elif r.violation == "postcondition" or (r.violation and "postcondition" in r.violation.lower()):
            raise v.ToolError("trace not consumed completely: " + r.out[-800:])
        else:
            v.tlc_ok(r, "TraceStore")
    c, tiers = tag_stats(traces)
    distinct = len({hash(open(t).read()) for t in traces if nontrivial(t)})
    stats = {"traces": len(traces), "events": events, "states": states, "transitions": transitions,
             "distinct": distinct, "outcomes": dict(c.most_common(60)), "tiers": dict(tiers),
             "sample_trace": traces[0] if traces else None}
    return violations, stats


def sample_events(trace, n=4):
    out = []
    if not trace:
        return out
    for line in open(trace):
        if '"e":"call"' in line:
            out.append(json.loads(s.short_event(line)))
            if len(out) >= n:
                break
    return out


def make_jobs(rng, configs, n, steps, extra=None):
    jobs = []
    for i in range(n):
        name, args = configs[i % len(configs)]
        jobs.append(("%s_%d" % (name, i), ["--seed", str(rng.randrange(1 << 30)), "--steps", str(steps)]
                     + args + (extra or [])))
    return jobs


def coverage_dict(stats, mc_states, mc_trans, rule, samples, extra=None):
    cov = {
        "states": stats["states"] + mc_states,
        "transitions": stats["transitions"] + mc_trans,
        "traces_validated_against_impl": stats["traces"],
        "evaluations": stats["events"],
        "distinct_nontrivial": stats["distinct"],
        "rule": rule,
        "samples": samples,
        "outcome_histogram": stats["outcomes"],
        "value_tiers_at_reads": stats["tiers"],
        "mc_states": mc_states,
    }
    if extra:
        cov.update(extra)
    return cov

"""Coordinator / shard / worker handshake engine: Coord.tla (design, every interleaving, six design mutations that
must fail) and TraceCoord.tla (recorded executions of the real write-behind judged by Coord's own formulas)."""
import json
import os

import vcommon as v

INV_OF = {  # which formulas each property owns (R6: a check reports only its own)
    "C19": ["DrainAll", "TickHonest", "NoLag", "ConservationT", "NothingLost"],
    "C02": ["ConservationT", "NothingLost", "AckCoversAll", "CloseCovers", "DrainAll", "DoneMeansDone"],
    "C09": ["ConservationT", "NothingLost", "AckCoversAll", "CloseCovers", "RequeueKept"],
    "C08": ["RetireRespectsPins", "AckCoversAll"],
}
ALL_INV = ["ConservationT", "NothingLost", "AckCoversAll", "CloseCovers", "DrainAll", "RequeueKept", "TickHonest", "NoLag", "RetireRespectsPins", "DoneMeansDone"]


def jobs_for(prop, tier, rng):
    n = 1 if tier == "quick" else 4
    J = []

    def add(tag, kind, cpus, **kw):
        args = ["--kind", kind, "--cpus", str(cpus), "--seed", str(rng.randrange(1 << 30))]
        for k, val in kw.items():
            args += ["--" + k, str(val)]
        J.append((tag, args))
    for i in range(n):
        if prop in ("C19", "C02"):
            add("mixed4_%d" % i, "mixed", 4, steps=70)
            add("mixed6_%d" % i, "mixed", 6, steps=60, threads=4)
            add("mixed2_%d" % i, "mixed", 2, steps=60)
            add("burst2_%d" % i, "burst", 2, burst=900, threads=3, blocks=8192)
            add("burst4_%d" % i, "burst", 4, burst=1500, threads=3, blocks=12288)
            add("pinned_%d" % i, "pinned", 4, steps=30)
        if prop in ("C19",):
            add("stopgo2_%d" % i, "stopgo", 2, rounds=6, blocks=16384)
            add("stopgo4_%d" % i, "stopgo", 4, rounds=6, blocks=16384)
            add("stopgo6_%d" % i, "stopgo", 6, rounds=5, blocks=16384)
        if prop in ("C02",):
            # a device that runs full while several threads write: batches that fail for lack of space go back in front,
            # retirements make room (Coord's `nospace` branch)
            add("squeeze4_%d" % i, "mixed", 4, steps=80, blocks=56)
            add("flushy4_%d" % i, "mixed", 4, steps=90, threads=4, flushpct=35)
            add("flushy6_%d" % i, "mixed", 6, steps=80, threads=5, flushpct=30)
            add("bigburst_%d" % i, "bigburst", 2, burst=7, blocks=20480)
            add("bigburst4_%d" % i, "bigburst", 4, burst=12, blocks=28672)
        if prop in ("C08",):
            # a reader keeps its pin for seconds while the deleted generation's retirement is asked for again and again
            # (flush() re-asks about once per millisecond)
            add("longpin4_%d" % i, "pinned", 4, steps=25, pinms=2600)
            add("longpin2_%d" % i, "pinned", 2, steps=25, pinms=1700)
            add("mixedc_%d" % i, "mixed", 4, steps=60, cache=0)
        if prop in ("C09",):
            add("faulty4_%d" % i, "faulty", 4, steps=60, sync=1)
            add("faulty2_%d" % i, "faulty", 2, steps=60, sync=1)
            add("faulty6_%d" % i, "faulty", 6, steps=50, sync=0)
            add("mixed4_%d" % i, "mixed", 4, steps=50)
    return J


def rename(raw_path, out_path):
    """Raw hook log -> TraceCoord events.  Renaming only: shard address -> index (rank), (key, ts, op) -> entry id in
    enqueue order, thread id -> caller index.  Returns statistics for the evidence."""
    raw = [json.loads(x) for x in open(raw_path)]
    cfg = raw[0]
    evs = raw[1:]
    addrs = sorted({int(e["c"]) for e in evs if e["e"] in ("enq", "drain", "requeue", "requeue_done")})
    ns = max(1, cfg["cpus"] // 2)
    if len(addrs) > ns:
        raise v.ToolError("coord: %d shard addresses for %d shards" % (len(addrs), ns))
    # shards are elements of one Vec<CachePadded<..>>: consecutive, so unseen ones can be placed by stride
    if len(addrs) < ns and len(addrs) >= 2:
        stride = min(b - a for a, b in zip(addrs, addrs[1:]))
        base = addrs[0]
        idx_of = {a: (a - base) // stride for a in addrs}
        if max(idx_of.values()) >= ns:
            raise v.ToolError("coord: shard addresses do not fit %d shards" % ns)
    else:
        idx_of = {a: i for i, a in enumerate(addrs)}
    nw = ns
    ident = {}
    kind_of = {}
    sh_of = {}
    fin = set()
    nid = 0
    callers = {}
    out = []
    pend_rq = {}
    pins = {}
    failed_final = 0
    pinned = 0
    last_drop_end = max([i for i, e in enumerate(evs) if e["e"] == "drop_end"] or [-1])
    stat = {"enq": 0, "drain": 0, "pub": 0, "skip": 0, "requeue": 0, "tick": 0, "flush_ok": 0, "flush_err": 0, "ret": 0,
            "workers": nw, "shards": ns, "unresolved": 0}

    def resolve(key, ts, d, final):
        for i in ident.get((key, ts, d), []):
            if i not in fin:
                if final:
                    fin.add(i)
                return i
        return None
    for n, e in enumerate(evs):
        k = e["e"]
        a, b, c = int(e["a"]), int(e["b"]), int(e["c"])
        if k == "enq":
            nid += 1
            ident.setdefault((e["key"], a, b), []).append(nid)
            kind_of[nid] = "D" if b else "W"
            sh_of[nid] = idx_of[c]
            out.append({"e": "enq", "id": nid, "s": idx_of[c], "k": kind_of[nid]})
            stat["enq"] += 1
        elif k == "drain":
            s = idx_of[c]
            out.append({"e": "drain", "w": s % nw, "s": s, "n": a})
            stat["drain"] += 1
        elif k in ("publish", "skip"):
            ts = c if k == "publish" else a
            i = resolve(e["key"], ts, 0, True)
            if i is None:
                stat["unresolved"] += 1
                continue
            out.append({"e": "pub" if k == "publish" else "skip", "w": sh_of[i] % nw, "id": i})
            stat["pub" if k == "publish" else "skip"] += 1
        elif k == "requeue_e":
            i = resolve(e["key"], a, b, False)
            if i is None:
                stat["unresolved"] += 1
                continue
            pend_rq.setdefault(e["tid"], []).append(i)
        elif k == "requeue":
            s = idx_of[c]
            ids = pend_rq.pop(e["tid"], [])
            out.append({"e": "requeue", "w": s % nw, "s": s, "ids": ids})
            stat["requeue"] += 1
        elif k == "requeue_done":
            out.append({"e": "requeue_done", "s": idx_of[c], "len": a})
        elif k == "worker_req":
            out.append({"e": "wreq", "w": a})
        elif k == "worker_done":
            out.append({"e": "wdone", "w": a, "ok": b, "again": c})
        elif k == "tick":
            out.append({"e": "tick", "w": a, "pending": b, "ret": c})
            stat["tick"] += 1
        elif k == "pin":
            pins.setdefault(a, []).append((e["key"], b))
        elif k == "unpin":
            if pins.get(a):
                pins[a].pop()
        elif k in ("ret_drop", "ret_mark"):
            held = 1 if k == "ret_mark" and any((e["key"], a) in v_ for v_ in pins.values()) else 0
            i = resolve(e["key"], a, 1, True)
            if i is None:
                continue
            out.append({"e": "ret", "id": i, "pinned": held})
            stat["ret"] += 1
        elif k == "flush_begin":
            cid = callers.setdefault(e["tid"], len(callers) + 1)
            out.append({"e": "flush_begin", "c": cid})
        elif k == "flush_end":
            cid = callers.setdefault(e["tid"], len(callers) + 1)
            out.append({"e": "flush_end", "c": cid, "ok": a})
            out.append({"e": "flush_ret", "c": cid})
            stat["flush_ok" if a else "flush_err"] += 1
        elif k == "pin_on":
            pinned = 1
        elif k == "pin_off":
            pinned = 0
        elif k == "settled":
            out.append({"e": "settled", "ticks": a, "pinned": pinned})
        elif k == "final_flush_fail":
            failed_final = 1
        elif k == "drop_end" and n == last_drop_end:
            out.append({"e": "closed", "failed": failed_final})
    head = {"e": "init", "ns": ns, "nw": nw, "nent": max(nid, 1), "ncallers": max(len(callers), 1)}
    with open(out_path, "w") as f:
        f.write(json.dumps(head) + "\n")
        for x in out:
            f.write(json.dumps(x) + "\n")
    stat["events"] = len(out) + 1
    return stat


def run(prop, tier, rng, fxv, rd, inv=None):
    """Returns (violations, coverage)."""
    inv = inv or INV_OF[prop]
    jobs = jobs_for(prop, tier, rng)
    os.makedirs(rd, exist_ok=True)
    cfg_path = os.path.join(rd, "TraceCoord_%s.cfg" % prop)
    base = open(os.path.join(v.SPEC, "TraceCoord.cfg")).read()
    base = base.replace("INVARIANTS " + " ".join(ALL_INV), "INVARIANTS " + " ".join(inv))
    open(cfg_path, "w").write(base)

    shm = v.shm_dir("coord")

    def one(job):
        tag, args = job
        raw = os.path.join(rd, "coord_%s.raw.ndjson" % tag)
        tr = os.path.join(rd, "coord_%s.ndjson" % tag)
        rc, so, se = v.run_cmd([fxv, "coord", "--out", raw, "--dir", shm] + args, timeout=240)
        if rc in (3, -9):
            return tag, tr, None, {"hang": (so or "")[-300:]}
        if rc != 0 or not os.path.exists(raw):
            if v.panic_in_code_under_test(se):
                return tag, tr, None, {"panic": v.clip_stderr(se)}
            raise v.ToolError("fxv coord %s failed (%d): %s" % (tag, rc, v.clip_stderr(se)))
        st = rename(raw, tr)
        r = v.run_tlc("TraceCoord", cfg_path, os.path.join(rd, "tlc_" + tag), workers=1, timeout=300,
                      env_extra={"TRACE": tr}, coverage=False, xmx="2g")
        return tag, tr, r, st
    res = v.parallel_map(one, jobs, jobs=6)
    import shutil
    shutil.rmtree(shm, ignore_errors=True)
    viol = []
    cov = {"traces": 0, "states": 0, "events": 0, "workloads": [], "totals": {}}
    for tag, tr, r, st in res:
        if r is None:
            what = "the write-behind %s (%s)" % ("hung" if "hang" in st else "panicked", json.dumps(st)[:300])
            viol.append({"what": "coord %s: %s" % (tag, what), "replay": v.save_replay(prop.lower(), "coord_%s.json" % tag, json.dumps(st)), "key": "coord " + tag})
            continue
        cov["traces"] += 1
        cov["states"] += r.distinct or 0
        cov["events"] += st["events"]
        cov["workloads"].append({"tag": tag, **{k: st[k] for k in ("shards", "enq", "drain", "pub", "skip", "requeue", "tick", "flush_ok", "flush_err", "ret", "unresolved")}})
        for k in ("enq", "drain", "pub", "skip", "requeue", "tick", "flush_ok", "flush_err", "ret"):
            cov["totals"][k] = cov["totals"].get(k, 0) + st[k]
        if r.violation and r.violation.startswith("invariant"):
            name = r.violation.split()[-1]
            at = (r.depth or 0)
            import re
            m = re.findall(r"State (\d+):", r.out)
            at = int(m[-1]) if m else at
            lines = open(tr).read().splitlines()
            ctx = lines[max(0, at - 4):at]
            viol.append({"what": "coord %s: %s false at event %d of the recorded handshake: %s" % (tag, name, at, " | ".join(ctx)[-500:]),
                         "replay": v.save_replay(prop.lower(), "coord_%s.ndjson" % tag, open(tr).read()), "key": "coord %s %s" % (tag, name)})
            continue
        v.tlc_ok(r, "TraceCoord(%s)" % tag)
        if r.violation:
            raise v.ToolError("TraceCoord(%s): trace not consumed (%s)" % (tag, r.violation))
    return viol, cov


def replay(prop, path):
    rd = v.run_dir(prop.lower() + "_replay", fresh=False)
    inv = INV_OF[prop]
    cfg_path = os.path.join(rd, "TraceCoord_%s.cfg" % prop)
    base = open(os.path.join(v.SPEC, "TraceCoord.cfg")).read()
    open(cfg_path, "w").write(base.replace("INVARIANTS " + " ".join(ALL_INV), "INVARIANTS " + " ".join(inv)))
    r = v.run_tlc("TraceCoord", cfg_path, rd, workers=1, timeout=900, env_extra={"TRACE": os.path.abspath(path)}, coverage=False, xmx="2g")
    return r


def is_coord(path):
    return os.path.basename(path).startswith("coord_")


def model(rd, tier):
    """Design level: Coord.tla exhaustively; every switch mutation must fail."""
    out = {}
    r = v.run_tlc("MCCoord", "MCCoord_quick.cfg" if tier == "quick" else "MCCoord_full.cfg", rd, workers=6,
                  timeout=3000, coverage=False, xmx="12g")
    v.tlc_ok(r, "MCCoord")
    out["design"] = {"distinct": r.distinct, "depth": r.depth, "violation": r.violation}
    return r, out


MUTS = ["AskAll", "TickAll", "TickWhenRet", "RequeueFront", "RetryAfterRetire", "WaitTrue"]


def part(prop, tier, rng, fxv, rd, design=False):
    """The handshake part of a check: recorded executions judged by TraceCoord.tla; with design=True also the design
    model Coord.tla (every interleaving of the bounded instance) and its switch mutations, which must fail."""
    viol, cov = run(prop, tier, rng, fxv, os.path.join(rd, "coord"))
    if design:
        mrd = os.path.join(rd, "coordmc")
        r = v.run_tlc("MCCoord", "MCCoord_quick.cfg" if tier == "quick" else "MCCoord_thorough.cfg", mrd, workers=6,
                      timeout=3600, coverage=False, xmx="12g")
        v.tlc_ok(r, "MCCoord")
        cov["design_states"] = r.distinct
        cov["design_depth"] = r.depth
        if r.violation:
            viol.append({"what": "model Coord.tla: " + r.violation, "replay": v.save_replay(prop.lower(), "coord_mc.out", r.out[-6000:]), "key": "coord mc"})
        muts = ["AskAll", "TickWhenRet"] if tier == "quick" else MUTS
        cov["design_mutations"] = {}
        for m in muts:
            rm = v.run_tlc("MCCoord", "MCCoord_mut_%s.cfg" % m, mrd, workers=4, timeout=1200, coverage=False, xmx="8g")
            if not rm.violation:
                raise v.ToolError("Coord.tla: the design mutation %s = FALSE is not rejected (the model has lost its teeth)" % m)
            cov["design_mutations"][m] = rm.violation
        if tier != "quick":
            rl = v.run_tlc("MCCoord", "MCCoord_live.cfg", mrd, workers=4, timeout=3600, coverage=False, xmx="12g")
            v.tlc_ok(rl, "MCCoord(live)")
            cov["design_liveness_states"] = rl.distinct
            if rl.violation:
                viol.append({"what": "model Coord.tla (liveness): " + rl.violation, "replay": v.save_replay(prop.lower(), "coord_live.out", rl.out[-6000:]), "key": "coord live"})
    return viol, cov


def replay_main(prop, path):
    r = replay(prop, path)
    if r.violation and r.violation.startswith("invariant"):
        print("  violation: %s on the recorded handshake %s" % (r.violation, path))
        print("VIOLATION property=%s replay=%s" % (prop, path))
        return 1
    v.tlc_ok(r, "TraceCoord(replay)")
    return 0

"""Shared machinery for /verif/bin/check: harness build, TLC runs, evidence, findings."""
import hashlib
import json
import os
import re
import shutil
import subprocess
import sys
import time

VERIF = os.path.dirname(os.path.dirname(os.path.abspath(__file__)))
REPO = os.environ.get("VERIF_REPO", "/repo")
HARNESS = os.path.join(VERIF, "harness")
SPEC = os.path.join(VERIF, "spec")
RUN = os.path.join(VERIF, "run")
EVIDENCE = os.path.join(VERIF, "evidence")
JAR = "/opt/veriftools/tla/tla2tools.jar"
DEPS = "/opt/veriftools/tla/CommunityModules-deps.jar"


class ToolError(Exception):
    """Machinery failure (exit 2): never a verdict about the property."""


def log(*a):
    print(*a, flush=True)


# ------------------------------------------------------------------ build

def repo_hash():
    h = hashlib.sha256()
    paths = []
    for root, dirs, files in os.walk(os.path.join(REPO, "src")):
        dirs.sort()
        for f in sorted(files):
            paths.append(os.path.join(root, f))
    paths += [os.path.join(REPO, "Cargo.toml"), os.path.join(REPO, "Cargo.lock")]
    for p in paths:
        if os.path.exists(p):
            h.update(p.encode())
            with open(p, "rb") as fh:
                h.update(fh.read())
    return h.hexdigest()


def harness_hash():
    h = hashlib.sha256()
    for root, dirs, files in os.walk(os.path.join(HARNESS, "src")):
        dirs.sort()
        for f in sorted(files):
            with open(os.path.join(root, f), "rb") as fh:
                h.update(fh.read())
    return h.hexdigest()


def build_harness(asan=False):
    """Build the harness against /repo's current working tree. Returns the binary path.

    cargo's fingerprints are mtime based; a source restored with an older mtime would not
    be recompiled, so the crate is cleaned whenever the content hash of the tree changed."""
    tdir = os.path.join(HARNESS, "target-asan" if asan else "target")
    stamp = os.path.join(tdir, ".repo_hash")
    cur = repo_hash()
    old = open(stamp).read().strip() if os.path.exists(stamp) else ""
    env = dict(os.environ)
    env["CARGO_NET_OFFLINE"] = "true"
    # keep the lock file in step with the repository's
    lock_src = os.path.join(REPO, "Cargo.lock")
    cmd_prefix = ["cargo"]
    if asan:
        cmd_prefix = ["cargo", "+nightly"]
        env["RUSTFLAGS"] = ("--cfg feoxdb_verif --check-cfg cfg(feoxdb_verif) "
                            "-Zsanitizer=address")
        env["CARGO_TARGET_DIR"] = tdir
    if old != cur and os.path.isdir(tdir):
        subprocess.run(cmd_prefix + ["clean", "--release", "-p", "feoxdb"] +
                       (["--target", "x86_64-unknown-linux-gnu"] if asan else []),
                       cwd=HARNESS, env=env, stdout=subprocess.DEVNULL,
                       stderr=subprocess.DEVNULL)
    cmd = cmd_prefix + ["build", "--release", "--offline"]
    if asan:
        cmd += ["--target", "x86_64-unknown-linux-gnu"]
    t0 = time.time()
    p = subprocess.run(cmd, cwd=HARNESS, env=env, stdout=subprocess.PIPE,
                       stderr=subprocess.STDOUT, text=True)
    if p.returncode != 0:
        sys.stdout.write(p.stdout[-6000:])
        raise ToolError("harness build failed (the tree under /repo does not compile "
                        "with hooks enabled?)")
    os.makedirs(tdir, exist_ok=True)
    with open(stamp, "w") as fh:
        fh.write(cur)
    binp = (os.path.join(tdir, "x86_64-unknown-linux-gnu", "release", "fxv") if asan
            else os.path.join(tdir, "release", "fxv"))
    if not os.path.exists(binp):
        raise ToolError("harness binary missing: " + binp)
    log("[build] harness%s ready in %.1fs" % (" (asan)" if asan else "", time.time() - t0))
    return binp


# ------------------------------------------------------------------ run dirs

def run_dir(check, fresh=True):
    d = os.path.join(RUN, check)
    if fresh and os.path.isdir(d):
        shutil.rmtree(d, ignore_errors=True)
    os.makedirs(d, exist_ok=True)
    return d


def shm_dir(tag):
    d = "/dev/shm/fxv-%s-%d" % (tag, os.getpid())
    shutil.rmtree(d, ignore_errors=True)
    os.makedirs(d, exist_ok=True)
    return d


# ------------------------------------------------------------------ TLC

class TlcResult:
    def __init__(self):
        self.rc = None
        self.out = ""
        self.generated = 0
        self.distinct = 0
        self.depth = 0
        self.violation = None      # text of the violated invariant / property
        self.error = None          # TLC evaluation error (tool error)
        self.timeout = False
        self.coverage = {}         # action name -> (distinct, total)
        self.wall = 0.0
        self.printed = []          # lines printed by PrintT


_COV = re.compile(r"^<(\w+) line \d+, col \d+ to line \d+, col \d+ of module (\w+)(?: \([\d ]+\))?>: (\d+):(\d+)")


def run_tlc(module, cfg, workdir, workers=4, timeout=600, simulate=None, env_extra=None,
            deadlock=False, depth_first=False, xmx="8g", coverage=True, extra=None,
            spec_dir=None, _retry=False):
    """Run TLC on spec/<module>.tla with config <cfg> (path relative to spec/ or absolute)."""
    spec_dir = spec_dir or SPEC
    os.makedirs(workdir, exist_ok=True)
    import uuid
    meta = os.path.join(workdir, "tlc-meta-%s-%s" % (module, uuid.uuid4().hex[:12]))
    tmp = os.path.join(workdir, "tmp")
    os.makedirs(tmp, exist_ok=True)
    jopts = ["-XX:+UseParallelGC", "-Xmx" + xmx, "-Xss1g", "-Djava.io.tmpdir=" + tmp]
    if depth_first:
        jopts.append("-Dtlc2.tool.queue.IStateQueue=StateDeque")
    cmd = ["java"] + jopts + ["-cp", JAR + ":" + DEPS, "tlc2.TLC",
                              "-workers", str(workers), "-metadir", meta, "-cleanup",
                              "-noGenerateSpecTE", "-config", cfg]
    if coverage:
        cmd += ["-coverage", "1"]
    if not deadlock:
        cmd += ["-deadlock"]
    if simulate:
        cmd += ["-simulate", simulate]
    if extra:
        cmd += list(extra)
    cmd.append(module + ".tla")
    env = dict(os.environ)
    if env_extra:
        env.update(env_extra)
    r = TlcResult()
    t0 = time.time()
    try:
        p = subprocess.run(cmd, cwd=spec_dir, env=env, stdout=subprocess.PIPE,
                           stderr=subprocess.STDOUT, text=True, timeout=timeout)
        r.rc = p.returncode
        r.out = p.stdout
    except subprocess.TimeoutExpired as e:
        r.timeout = True
        r.out = (e.stdout.decode() if isinstance(e.stdout, bytes) else (e.stdout or ""))
        r.rc = -9
    r.wall = time.time() - t0
    shutil.rmtree(meta, ignore_errors=True)
    parse_tlc(r)
    if r.error and "unexpected exception" in r.error and not _retry:
        # TLC start-up races (e.g. a JVM killed by memory pressure) are retried once
        return run_tlc(module, cfg, workdir, workers=workers, timeout=timeout, simulate=simulate,
                       env_extra=env_extra, deadlock=deadlock, depth_first=depth_first, xmx=xmx,
                       coverage=coverage, extra=extra, spec_dir=spec_dir, _retry=True)
    return r


def parse_tlc(r):
    out = r.out
    m = None
    for m in re.finditer(r"(\d+) states generated, (\d+) distinct states found", out):
        pass
    if m:
        r.generated, r.distinct = int(m.group(1)), int(m.group(2))
    m = re.search(r"The depth of the complete state graph search is (\d+)", out)
    if m:
        r.depth = int(m.group(1))
    m = re.search(r"Error: Invariant (\S+) is violated", out)
    if m:
        r.violation = "invariant " + m.group(1)
    m2 = re.search(r"Error: Action property (\S+) is violated", out)
    if m2:
        r.violation = "action property " + m2.group(1)
    m4 = re.search(r"Error: Temporal property (\S+) was violated", out)
    if m4:
        r.violation = "temporal property " + m4.group(1)
    elif re.search(r"Error: Temporal properties were violated", out):
        r.violation = "temporal property"
    if re.search(r"Error: Deadlock reached", out):
        r.violation = "deadlock"
    if r.violation is None:
        m3 = re.search(r"Error: (.*)", out)
        if m3 and "Postcondition" in out and "Error: Assumption" not in out and \
                re.search(r"postcondition", out, re.I):
            r.violation = "postcondition"
        elif m3:
            r.error = m3.group(1)
    for line in out.splitlines():
        mm = _COV.match(line.strip())
        if mm:
            name = mm.group(1)
            d, t = int(mm.group(3)), int(mm.group(4))
            pd, pt = r.coverage.get(name, (0, 0))
            r.coverage[name] = (pd + d, pt + t)
    return r


def tlc_ok(r, what):
    """Raise ToolError unless the TLC run finished normally without violation."""
    if r.timeout:
        raise ToolError("%s: TLC timed out after %.0fs" % (what, r.wall))
    if r.error and not r.violation:
        sys.stdout.write(r.out[-4000:])
        raise ToolError("%s: TLC error: %s" % (what, r.error))
    if r.rc not in (0,) and not r.violation:
        sys.stdout.write(r.out[-4000:])
        raise ToolError("%s: TLC exit code %s" % (what, r.rc))


def printed_json(out, tag):
    """Extract JSON payloads printed as <<"TAG", "json">> by PrintT."""
    res = []
    pat = re.compile(r'^<<"' + re.escape(tag) + r'", "(.*)">>$')
    for line in out.splitlines():
        m = pat.match(line.strip())
        if m:
            s = m.group(1).replace('\\"', '"').replace("\\\\", "\\")
            try:
                res.append(json.loads(s))
            except Exception:
                pass
    return res


# ------------------------------------------------------------------ findings

def load_findings():
    p = os.path.join(VERIF, "known_findings.json")
    if not os.path.exists(p):
        return []
    return json.load(open(p)).get("findings", [])


def known_for(prop):
    return [f for f in load_findings() if f.get("property") == prop and f.get("kind") == "known"]


# ------------------------------------------------------------------ evidence

def write_evidence(prop, tier, seed, level, coverage, wall, violations=0, assumptions=None):
    os.makedirs(EVIDENCE, exist_ok=True)
    ev = {
        "property_id": prop,
        "tier": tier,
        "seed": int(seed),
        "level": level,
        "coverage": coverage,
        "assumptions": assumptions or [],
        "wall_s": round(wall, 2),
        "violations": int(violations),
    }
    tmp = os.path.join(EVIDENCE, prop + ".json.tmp")
    with open(tmp, "w") as fh:
        json.dump(ev, fh, indent=1, sort_keys=True)
    os.replace(tmp, os.path.join(EVIDENCE, prop + ".json"))


def save_replay(check, name, payload):
    """Persist a replay artefact under /verif/run/replays (kept across runs)."""
    d = os.path.join(RUN, "replays", check)
    os.makedirs(d, exist_ok=True)
    p = os.path.join(d, name)
    if isinstance(payload, (dict, list)):
        with open(p, "w") as fh:
            json.dump(payload, fh, indent=1)
    elif isinstance(payload, bytes):
        with open(p, "wb") as fh:
            fh.write(payload)
    else:
        with open(p, "w") as fh:
            fh.write(str(payload))
    return p


def run_cmd(cmd, timeout=600, cwd=None, env=None, stdin=None):
    try:
        p = subprocess.run(cmd, cwd=cwd, env=env, stdout=subprocess.PIPE, stderr=subprocess.PIPE,
                           text=True, timeout=timeout, input=stdin)
        return p.returncode, p.stdout, p.stderr
    except subprocess.TimeoutExpired as e:
        so = e.stdout.decode() if isinstance(e.stdout, bytes) else (e.stdout or "")
        se = e.stderr.decode() if isinstance(e.stderr, bytes) else (e.stderr or "")
        return -9, so, se


def parallel_map(fn, items, jobs=8):
    from concurrent.futures import ThreadPoolExecutor
    with ThreadPoolExecutor(max_workers=jobs) as ex:
        return list(ex.map(fn, items))


def clip_stderr(se, n=1500):
    """The tail of a child's stderr, but never without its `panicked at` line (a backtrace can be
    longer than the tail: the location decides between a result and a tool error)."""
    se = se or ""
    if len(se) <= n:
        return se
    i = se.find("panicked at ")
    if i >= 0 and i < len(se) - n:
        return se[max(0, i - 40):i + 500] + "\n...\n" + se[-(n - 500):]
    return se[-n:]


def panic_in_code_under_test(stderr):
    """True when a panic message points into the repository under test (a result), False when
    it points into the harness itself (a tool error)."""
    import re as _re
    m = _re.search(r"panicked at ([^\s:]+):", stderr or "")
    if not m:
        return False
    loc = m.group(1)
    return "repo/src" in loc or loc.startswith("/repo") or "feoxdb" in loc

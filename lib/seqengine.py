"""Sequential contract engine shared by C01, C11, C12, C13, C14, C16: run `fxv seq` programs
against the real store and validate the recorded traces with TLC (TraceStore.tla)."""
import json
import os
import re

import vcommon as v

ALL_INV = ["ResultsMatch", "ExpiryExact", "AutoTsOK", "AccountingExact", "RangeExact"]


def run_programs(fxv, rd, jobs, par=12):
    """jobs: list of (tag, [fxv seq args...]). Returns list of dict(tag, trace, rc, info)."""
    shm = v.shm_dir("seq")

    def one(job):
        tag, args = job
        trace = os.path.join(rd, tag + ".ndjson")
        rc, so, se = v.run_cmd([fxv, "seq", "--out", trace, "--dir", shm] + args, timeout=300)
        info = {}
        for line in so.splitlines():
            try:
                info.update(json.loads(line))
            except Exception:
                pass
        return {"tag": tag, "trace": trace, "rc": rc, "info": info, "stderr": v.clip_stderr(se, 2000),
                "args": args}
    try:
        return v.parallel_map(one, jobs, jobs=par)
    finally:
        import shutil
        shutil.rmtree(shm, ignore_errors=True)


def overhead_of(trace):
    with open(trace) as fh:
        first = json.loads(fh.readline())
    return first.get("overhead", 168)


def validate(rd, traces, invariants, tag, chunk=6, par=6):
    """Concatenate traces in chunks and validate each chunk with one TLC run.
    Returns (results, stats) where results = list of dict(trace_group, r, lines)."""
    groups = [traces[i:i + chunk] for i in range(0, len(traces), chunk)]

    def one(arg):
        gi, group = arg
        cat = os.path.join(rd, "%s_group%d.ndjson" % (tag, gi))
        index = []      # (first line number, trace path)
        n = 0
        with open(cat, "w") as out:
            for t in group:
                index.append((n + 1, t))
                for line in open(t):
                    if line.strip():
                        try:
                            json.loads(line)      # a run cut short by the watchdog ends mid-line
                        except Exception:
                            continue
                        out.write(line if line.endswith("\n") else line + "\n")
                        n += 1
        cfg = os.path.join(rd, "%s_group%d.cfg" % (tag, gi))
        tmpl = open(os.path.join(v.SPEC, "TraceStore.cfg.tmpl")).read()
        open(cfg, "w").write(tmpl.replace("@OVERHEAD@", str(overhead_of(group[0])))
                             .replace("@INVARIANTS@", " ".join(invariants)))
        r = v.run_tlc("TraceStore", cfg, rd, workers=1, timeout=1200, env_extra={"TRACE": cat},
                      depth_first=True, coverage=False, xmx="4g")
        return {"cat": cat, "index": index, "r": r, "events": n}
    return v.parallel_map(one, list(enumerate(groups)), jobs=par)


def explain(res):
    """Locate the failing event of a rejected group: returns (trace path, local index, event, flags)."""
    r = res["r"]
    m = None
    for m in re.finditer(r"/\\ l = (\d+)", r.out):
        pass
    if not m:
        return None, None, None, None
    lidx = int(m.group(1)) - 1          # the event that produced the offending state
    fl = None
    for fl in re.finditer(r"/\\ flags = (\{[^}]*\})", r.out):
        pass
    flags = fl.group(1) if fl else "?"
    trace, start = None, 0
    for first, t in res["index"]:
        if first <= lidx:
            trace, start = t, first
    lines = open(res["cat"]).read().splitlines()
    ev = lines[lidx - 1] if 1 <= lidx <= len(lines) else None
    return trace, lidx - start + 1, ev, flags


def short_event(ev):
    try:
        e = json.loads(ev)
    except Exception:
        return str(ev)[:300]
    keep = {k: e.get(k) for k in ("e", "op", "k", "auto", "ts", "ttl", "d", "lo", "hi", "lim", "res", "now")
            if k in e}
    if "post" in e and e.get("k"):
        try:
            keep["post_k"] = e["post"]["recs"][e["k"] - 1]
        except Exception:
            pass
    if "post" in e:
        keep["post_len"] = e["post"].get("len")
        keep["post_mem"] = e["post"].get("mem")
    return json.dumps(keep, sort_keys=True)


def run_stories(prop, fxv, rd, kind, n, what, inv=("ResultsMatch", "AccountingExact")):
    """Directed stories (fxv faultstory / inflightstory): each run records one sequential history of the
    real store, TraceStore.tla judges it (ResultsMatch, AccountingExact).  Returns (violations, traces, states)."""
    import shutil
    shm = v.shm_dir("%s-%s" % (prop.lower(), kind))
    stories = []
    try:
        for i in range(n):
            t = os.path.join(rd, "%s_%d.ndjson" % (kind, i))
            rc, so, se = v.run_cmd([fxv, kind, "--out", t, "--dir", shm, "--attempts", "80", "--cache", str(i % 2)], timeout=180)
            if rc == 3:
                continue            # the workers never produced the layout of the story
            if rc != 0:
                raise v.ToolError("fxv %s failed: %s" % (kind, se[-400:]))
            stories.append(t)
    finally:
        shutil.rmtree(shm, ignore_errors=True)
    if not stories:
        raise v.ToolError("%s: the story could not be produced in any run" % kind)
    viol = []
    states = 0
    for g in validate(rd, stories, list(inv), kind, chunk=1):
        r = g["r"]
        states += r.distinct
        if r.violation and r.violation.startswith("invariant"):
            tt, i, ev, fl = explain(g)
            keep = v.save_replay(prop.lower(), os.path.basename(tt), open(tt).read())
            viol.append({"what": "%s: %s flags=%s at event %s: %s" % (what, r.violation, fl, i, short_event(ev)),
                         "replay": keep, "key": "%s %s %s" % (kind, r.violation, fl)})
        else:
            v.tlc_ok(r, "TraceStore(%s)" % kind)
    return viol, len(stories), states


def replay_story(prop, path):
    g = validate(v.run_dir(prop.lower() + "_replay"), [path], ["ResultsMatch", "AccountingExact"], "replay")[0]
    if g["r"].violation:
        t, i, ev, fl = explain(g)
        print("rejected: %s flags=%s at event %s: %s" % (g["r"].violation, fl, i, short_event(ev)))
        print("VIOLATION property=%s replay=%s" % (prop, path))
        return 1
    print("trace accepted")
    return 0


def is_story(path):
    b = os.path.basename(path)
    return b.startswith("faultstory_") or b.startswith("inflightstory_") or b.startswith("renewstory_") or b.startswith("ackstory_") or b.startswith("pinstory_") or b.startswith("scanstory_")

"""Concurrency engine shared by C07 (and the concurrent parts of C08, C11, C13, C14): program
families executed under the controlled scheduler (preemption-bounded enumeration of the
interleavings at scheduling-point granularity) or free-running, judged by TLC (LinTrace.tla)."""
import itertools
import json
import os
import re

import vcommon as v

E9 = 1000000000
NOW = 1000 * E9
B1 = {"k": "b", "id": 1, "len": 3, "n": 0}
B2 = {"k": "b", "id": 2, "len": 5, "n": 0}
B3 = {"k": "b", "id": 3, "len": 40, "n": 0}
C5 = {"k": "i", "id": 0, "len": 8, "n": 5}
D1 = {"k": "d", "id": 0, "len": 7, "n": 1}

INITS = {
    "absent": [],
    "bytes": [{"op": "insert", "k": 1, "v": B1, "auto": False, "tsv": NOW - 10 * E9}],
    "counter": [{"op": "insert", "k": 1, "v": C5, "auto": False, "tsv": NOW - 10 * E9}],
    "doc": [{"op": "insert", "k": 1, "v": D1, "auto": False, "tsv": NOW - 10 * E9}],
    "expired": [{"op": "insert", "k": 1, "v": C5, "auto": False, "tsv": NOW - 10 * E9, "ttlv": 5, "wttl": True}],
}

OPS = {
    "ins_auto": {"op": "insert", "k": 1, "v": B2},
    "ins_old": {"op": "insert", "k": 1, "v": B2, "auto": False, "tsv": NOW - 20 * E9},
    "ins_new": {"op": "insert", "k": 1, "v": B3, "auto": False, "tsv": NOW + 1},
    "ins_ttl": {"op": "insert", "k": 1, "v": B2, "ttlv": 50, "wttl": True},
    # a replayed TTL write: newer than the initial generation, its own deadline already in the past
    "ins_ttl_past": {"op": "insert", "k": 1, "v": B3, "auto": False, "tsv": NOW - 8 * E9, "ttlv": 1, "wttl": True},
    "del_auto": {"op": "delete", "k": 1},
    "del_new": {"op": "delete", "k": 1, "auto": False, "tsv": NOW + 2},
    "insb_auto": {"op": "insert", "k": 1, "v": B2, "bytes": True},          # the Bytes variants have their own update path
    "insb_new": {"op": "insert", "k": 1, "v": B3, "auto": False, "tsv": NOW + 1, "bytes": True},
    "insb_ttl": {"op": "insert", "k": 1, "v": B2, "ttlv": 50, "wttl": True, "bytes": True},
    "del_eq": {"op": "delete", "k": 1, "auto": False, "tsv": NOW - 10 * E9},      # equal to the initial generation's
    "ins_eq": {"op": "insert", "k": 1, "v": B3, "auto": False, "tsv": NOW - 10 * E9},
    "get": {"op": "get", "k": 1},
    "cas": {"op": "cas", "k": 1, "x": B1, "v": B2},
    "cas_new": {"op": "cas", "k": 1, "x": B1, "v": B3, "auto": False, "tsv": NOW + 1},
    "cas_ctr": {"op": "cas", "k": 1, "x": C5, "v": B2},
    "incr": {"op": "incr", "k": 1, "d": 1},
    "incr2": {"op": "incr", "k": 1, "d": 2, "auto": False, "tsv": NOW + 3},
    "iia": {"op": "iia", "k": 1, "v": B2},
    "patch": {"op": "patch", "k": 1, "ps": 3, "pt": -1},
    "ttl": {"op": "update_ttl", "k": 1, "ttlv": 50},
    "sweep": {"op": "sweep"},
    "contains": {"op": "contains", "k": 1},
}


def prog(init, threads, lim=-1, keys=("k1",)):
    return {"cfg": {"pers": False, "ttl": True, "lim": lim}, "keys": list(keys), "init": init,
            "threads": threads}


def pair_family():
    progs = []
    names = sorted(OPS)
    for iname, init in INITS.items():
        for a, b in itertools.combinations_with_replacement(names, 2):
            if {a, b} <= {"get", "contains"}:
                continue
            progs.append((("%s|%s|%s" % (iname, a, b)), prog(init, [[OPS[a]], [OPS[b]]])))
    return progs


def aba_family():
    """A key is deleted and re-created at the SAME explicit timestamp as the generation another
    thread has read and is about to replace (compare-and-swap, patch, increment, TTL update, upsert,
    delete): generations are distinguished by identity, not by their timestamp."""
    progs = []
    t0 = NOW - 10 * E9
    c7 = {"k": "i", "id": 0, "len": 8, "n": 7}
    d2 = {"k": "d", "id": 0, "len": 7, "n": 2}
    again = {"bytes": B3, "counter": c7, "doc": d2}
    readers = {"bytes": ["cas", "cas_new", "ins_new", "ins_auto", "ttl", "del_new", "iia"],
               "counter": ["incr", "incr2", "cas_ctr", "ttl"],
               "doc": ["patch", "ttl", "ins_new"]}
    for iname, rs in readers.items():
        for dele in ("del_auto", "del_new"):
            recreate = {"op": "insert", "k": 1, "v": again[iname], "auto": False, "tsv": t0}
            for r in rs:
                progs.append(("aba|%s|%s|%s" % (iname, r, dele), prog(INITS[iname], [[OPS[r]], [OPS[dele], recreate]])))
            # and the same value again (true ABA: the compare succeeds on equal bytes)
            same = {"op": "insert", "k": 1, "v": INITS[iname][0]["v"], "auto": False, "tsv": t0}
            progs.append(("aba_same|%s|%s" % (iname, dele), prog(INITS[iname], [[OPS[rs[0]]], [OPS[dele], same]])))
    return progs


def clock_family():
    """The version clock is lock-free: a write with an explicit timestamp ahead of the clock is being
    recorded in its shard (load .. compare-exchange) while another thread draws an automatic timestamp
    from the same shard.  Once the explicit write has returned, an automatic write to the key must be
    accepted.  The only decision points are the loads of the clock shard (hook verif::atomics)."""
    progs = []
    far = NOW + 500 * E9
    explicit = {
        "bytes": [("ins", {"op": "insert", "k": 1, "v": B3, "auto": False, "tsv": far}),
                  ("insb", {"op": "insert", "k": 1, "v": B3, "auto": False, "tsv": far, "bytes": True}),
                  ("cas", {"op": "cas", "k": 1, "x": B1, "v": B3, "auto": False, "tsv": far}),
                  ("del", {"op": "delete", "k": 1, "auto": False, "tsv": far})],
        "counter": [("incr", {"op": "incr", "k": 1, "d": 2, "auto": False, "tsv": far})],
        "doc": [("patch", {"op": "patch", "k": 1, "ps": 3, "pt": -1, "auto": False, "tsv": far})],
    }
    drawers = {"bytes": ["ins_auto", "patch", "del_auto", "ttl"], "counter": ["incr", "ins_auto"], "doc": ["patch", "ins_auto"]}
    for iname, exs in explicit.items():
        for en, e in exs:
            for d in drawers[iname]:
                p = prog(INITS[iname], [[e, OPS["ins_auto"]], [OPS[d]]])
                p["points"] = ["clock_load"]
                progs.append(("clock|%s|%s|%s" % (iname, en, d), p))
    return progs


def pers_lww_family():
    """Persistent store, the key's value offloaded to the device: a read-then-replace operation with an
    explicit timestamp T races with an upsert carrying a NEWER timestamp and the flush that writes it
    and retires the generation the operation has read.  Whatever the operation is handed when its disk
    read goes stale, it must not publish T on top of the newer generation."""
    progs = []
    ctr_new = {"k": "i", "id": 0, "len": 8, "n": 50}
    points = ["inc_read", "inc_guard", "cas_read", "cas_cmp", "jp_read", "jp_apply", "resolve_cache", "resolve_retry",
              "rd_pinned", "rd_sector", "upd_guard", "upd_post", "wb_alloc", "wb_device", "ret_device", "ret_release"]
    for cache in (False, True):
        cfg = {"pers": True, "ttl": True, "lim": -1, "cache": cache, "blocks": 40}
        inits = {
            "counter": ([{"op": "insert", "k": 1, "v": C5, "auto": False, "tsv": NOW - 10 * E9}, {"op": "flush"}],
                        [("incr2", OPS["incr2"]), ("cas_ctr_new", {"op": "cas", "k": 1, "x": C5, "v": B2, "auto": False, "tsv": NOW + 1})],
                        {"op": "insert", "k": 1, "v": ctr_new, "auto": False, "tsv": NOW + 7}),
            "doc": ([{"op": "insert", "k": 1, "v": D1, "auto": False, "tsv": NOW - 10 * E9}, {"op": "flush"}],
                    [("patch_new", {"op": "patch", "k": 1, "ps": 3, "pt": -1, "auto": False, "tsv": NOW + 2})],
                    {"op": "insert", "k": 1, "v": {"k": "d", "id": 0, "len": 7, "n": 4}, "auto": False, "tsv": NOW + 7}),
        }
        for iname, (init, readers, newer) in inits.items():
            for rn, r in readers:
                for same in (False, True):
                    w = dict(newer)
                    if same:
                        w["tsv"] = r["tsv"]          # an equal timestamp is not newer either
                    progs.append(("perslww|%s|%s|%s|%s" % ("c" if cache else "n", iname, rn, "eq" if same else "gt"),
                                  {"cfg": cfg, "keys": ["k1"], "init": init, "points": points,
                                   "threads": [[r], [w, {"op": "flush"}]]}))
    return progs


def range_family():
    progs = []
    keys = ("ka", "kb", "kc")
    init = [{"op": "insert", "k": 1, "v": B1, "auto": False, "tsv": NOW - 10 * E9},
            {"op": "insert", "k": 3, "v": B2, "auto": False, "tsv": NOW - 10 * E9}]
    scan = {"op": "range", "lo": 1, "hi": 3, "lim": 3}
    scan2 = {"op": "range", "lo": 1, "hi": 3, "lim": 2}
    writers = [
        [{"op": "insert", "k": 2, "v": B2}],
        [{"op": "delete", "k": 1}],
        [{"op": "delete", "k": 3}, {"op": "insert", "k": 3, "v": B1}],
        [{"op": "insert", "k": 1, "v": B3}, {"op": "insert", "k": 2, "v": B1}],
        [{"op": "update_ttl", "k": 1, "ttlv": 50}],
        [{"op": "incr", "k": 2, "d": 1}, {"op": "delete", "k": 2}],
    ]
    for i, w in enumerate(writers):
        for j, sc in enumerate((scan, scan2)):
            progs.append(("range%d_%d" % (i, j), prog(init, [[sc], w], keys=keys)))
    return progs


def bigscan_family(n=700):
    """Scans over more entries than the scan keeps one epoch pin for (256) and than it preallocates for (1024 in
    the thorough variant): limits just below / at / above those numbers, windows that start and end inside them,
    expired and never-created keys in between; alone (exact result) and against a writer."""
    keys = ["k%04d" % i for i in range(n)]
    init = []
    for i in range(1, n + 1):
        if i % 37 == 0:
            continue
        op = {"op": "insert", "k": i, "v": B1 if i % 2 else B2, "auto": False, "tsv": NOW - 10 * E9}
        if i % 11 == 0:
            op.update({"ttlv": 5, "wttl": True})          # expired at NOW
        init.append(op)
    lims = [255, 256, 257, n, 1] + ([1023, 1024, 1025] if n > 1100 else [])
    scans = [{"op": "range", "lo": 1, "hi": n, "lim": l} for l in lims] + \
            [{"op": "range", "lo": 200, "hi": 520, "lim": 400}, {"op": "range", "lo": 250, "hi": n + 1, "lim": 300}]
    cfg = {"pers": False, "ttl": True, "lim": -1}
    progs = [("bigscan_%d" % n, {"cfg": cfg, "keys": keys, "init": init, "threads": [scans]})]
    writer = [{"op": "insert", "k": 37 * 8, "v": B3}, {"op": "delete", "k": 300}, {"op": "insert", "k": 301, "v": B3},
              {"op": "update_ttl", "k": 302, "ttlv": 50}, {"op": "delete", "k": 37 * 8}]
    progs.append(("bigscan_w_%d" % n, {"cfg": cfg, "keys": keys, "init": init,
                                       "points": ["between_ops", "upd_post", "del_post", "ins_enq", "ttl_post"],
                                       "threads": [[scans[0], scans[3]], writer]}))
    return progs


def mem_family():
    # limits that admit only some of the racing creators / growers
    progs = []
    over = 168
    for lim in (over + 2 + 5 + 3, 2 * (over + 2 + 5), 2 * (over + 2) + 10):
        t = [[{"op": "insert", "k": 1, "v": B2}], [{"op": "insert", "k": 2, "v": B2}]]
        progs.append(("mem_create_%d" % lim, prog([], t, lim=lim, keys=("k1", "k2"))))
        init = [{"op": "insert", "k": 1, "v": B1, "auto": False, "tsv": NOW - 10 * E9}]
        t = [[{"op": "insert", "k": 1, "v": B3}], [{"op": "iia", "k": 2, "v": B2}]]
        progs.append(("mem_grow_%d" % lim, prog(init, t, lim=lim + 40, keys=("k1", "k2"))))
        t = [[{"op": "incr", "k": 1, "d": 1}], [{"op": "incr", "k": 2, "d": 1}], [{"op": "delete", "k": 1}]]
        progs.append(("mem_incr_%d" % lim, prog([], t, lim=lim, keys=("k1", "k2"))))
    # racing overwrites of one key with values of different sizes (exact accounting at quiescence)
    init = [{"op": "insert", "k": 1, "v": B1, "auto": False, "tsv": NOW - 10 * E9}]
    for (va, vb) in ((B3, B2), (B2, B3)):
        t = [[{"op": "insert", "k": 1, "v": va, "auto": False, "tsv": NOW + 2}],
             [{"op": "insert", "k": 1, "v": vb, "auto": False, "tsv": NOW + 1}]]
        progs.append(("mem_overwrite_%d" % va["len"], prog(init, t)))
        t = [[{"op": "insert", "k": 1, "v": va}], [{"op": "cas", "k": 1, "x": B1, "v": vb}], [{"op": "delete", "k": 1}]]
        progs.append(("mem_mix_%d" % va["len"], prog(init, t)))
    return progs


def triple_family(rng, n):
    names = sorted(OPS)
    progs = []
    for i in range(n):
        iname = rng.choice(sorted(INITS))
        ops = [rng.choice(names) for _ in range(3)]
        progs.append(("tri_%s_%s" % (iname, "_".join(ops)), prog(INITS[iname], [[OPS[o]] for o in ops])))
    return progs


def held_reader_family():
    """Two readers of one offloaded generation against a writer that supersedes it and flushes:
    one reader holds its pin while the retirement pass runs, the other arrives late and is turned
    away.  Preemptions only where a reader stands between its index lookup and its device read."""
    progs = []
    big = {"k": "b", "id": 4, "len": 5000, "n": 0}
    one = {"k": "b", "id": 6, "len": 900, "n": 0}
    nv = {"k": "b", "id": 7, "len": 1200, "n": 0}
    points = ["rd_pinned", "rd_sector", "get_read", "resolve_cache", "resolve_retry", "range_slot", "cas_read", "inc_read"]
    for cache in (False, True):
        cfg = {"pers": True, "ttl": True, "lim": -1, "cache": cache, "blocks": 24}
        for tag, val in (("multi", big), ("single", one)):
            init = [{"op": "insert", "k": 1, "v": val, "auto": False, "tsv": NOW - 10 * E9}, {"op": "flush"}]
            readers = {"get": [{"op": "get", "k": 1}],
                       "range": [{"op": "range", "lo": 1, "hi": 2, "lim": 3}],
                       "cas": [{"op": "cas", "k": 1, "x": val, "v": nv}]}
            writers = {"delete": [{"op": "delete", "k": 1}, {"op": "flush"}],
                       "update": [{"op": "insert", "k": 1, "v": nv}, {"op": "flush"}],
                       "ttl": [{"op": "update_ttl", "k": 1, "ttlv": 70}, {"op": "flush"}, {"op": "flush"}]}
            for ra, rb in (("get", "get"), ("get", "range"), ("range", "get"), ("get", "cas")):
                for wn, w in writers.items():
                    progs.append(("held_%s_%s_%s_%s_%s" % (tag, "c" if cache else "n", ra, rb, wn),
                                  {"cfg": cfg, "keys": ["k1", "k2"], "init": init, "points": points,
                                   "threads": [readers[ra], readers[rb], w]}))
    return progs



def expired_update_family():
    """A reader that looked up an unexpired OFFLOADED generation is overtaken by a writer that replaces it with a
    generation whose own deadline has already passed (a replayed TTL write) and flushes: the reader's pin is refused,
    it falls back to the current generation - which must be treated as expired by every read path (get, compare-and-
    swap on the dead value, range scan, increment)."""
    progs = []
    a = {"k": "b", "id": 6, "len": 900, "n": 0}
    b = {"k": "b", "id": 7, "len": 1200, "n": 0}
    c = {"k": "b", "id": 8, "len": 700, "n": 0}
    points = ["get_read", "resolve_cache", "resolve_retry", "rd_pinned", "rd_sector", "range_slot", "cas_read", "inc_read"]
    dead = {"op": "insert", "k": 1, "v": b, "auto": False, "tsv": NOW - 8 * E9, "ttlv": 1, "wttl": True}
    for cache in (False, True):
        cfg = {"pers": True, "ttl": True, "lim": -1, "cache": cache, "blocks": 24}
        init = [{"op": "insert", "k": 1, "v": a, "auto": False, "tsv": NOW - 10 * E9}, {"op": "flush"}]
        readers = {"get": [{"op": "get", "k": 1}],
                   "casdead": [{"op": "cas", "k": 1, "x": b, "v": c}],
                   "caslive": [{"op": "cas", "k": 1, "x": a, "v": c}],
                   "range": [{"op": "range", "lo": 1, "hi": 2, "lim": 3}]}
        for rn, r in readers.items():
            progs.append(("expupd_%s_%s" % ("c" if cache else "n", rn),
                          {"cfg": cfg, "keys": ["k1", "k2"], "init": init, "points": points,
                           "threads": [r, [dead, {"op": "flush"}]]}))
    return progs

def ack_flush_family():
    """A reader holds its pin on a generation that has just been superseded; two threads call flush().
    No flush() may return Ok while the retirement is still pending (FlushAckComplete)."""
    progs = []
    big = {"k": "b", "id": 4, "len": 5000, "n": 0}
    one = {"k": "b", "id": 6, "len": 900, "n": 0}
    nv = {"k": "b", "id": 7, "len": 1200, "n": 0}
    points = ["rd_pinned", "ret_requeue"]
    for tag, val in (("multi", big), ("single", one)):
        cfg = {"pers": True, "ttl": True, "lim": -1, "cache": False, "blocks": 24}
        init = [{"op": "insert", "k": 1, "v": val, "auto": False, "tsv": NOW - 10 * E9}, {"op": "flush"}]
        for rn, r in (("get", [{"op": "get", "k": 1}]), ("range", [{"op": "range", "lo": 1, "hi": 2, "lim": 3}])):
            for wn, w in (("delete", [{"op": "delete", "k": 1}, {"op": "flush"}]), ("update", [{"op": "insert", "k": 1, "v": nv}, {"op": "flush"}])):
                # directed schedules: the reader stands at its pin; the writer's flush stands where unfinished
                # retirements are about to be queued again; the third thread's flush runs meanwhile
                for si, script in enumerate(([[0, "rd_pinned"], [1, "ret_requeue"], [2, "end"]],
                                             [[0, "rd_pinned"], [2, "ret_requeue"], [1, "ret_requeue"], [2, "end"]],
                                             [[0, "rd_sector"], [1, "ret_requeue"], [2, "end"], [1, "end"]])):
                    progs.append(("ackflush_%s_%s_%s_s%d" % (tag, rn, wn, si),
                                  {"cfg": cfg, "keys": ["k1", "k2"], "init": init, "points": points, "script": script,
                                   "threads": [r, w, [{"op": "flush"}, {"op": "flush"}]]}))
    return progs


def run_dfs(fxv, rd, progs, tag, chunk=40, maxsched=300, preempt=2, par=12):
    """Execute every program's schedules; returns list of (trace, info)."""
    groups = [progs[i:i + chunk] for i in range(0, len(progs), chunk)]

    def one(arg):
        gi, group = arg
        pf = os.path.join(rd, "%s_%d.prog" % (tag, gi))
        with open(pf, "w") as fh:
            for name, p in group:
                fh.write(json.dumps(p) + "\n")
        trace = os.path.join(rd, "%s_%d.ndjson" % (tag, gi))
        rc, so, se = v.run_cmd([fxv, "conc", "--mode", "dfs", "--prog", pf, "--out", trace,
                                "--maxsched", str(maxsched), "--preempt", str(preempt)], timeout=900)
        info = {}
        for line in so.splitlines():
            try:
                info.update(json.loads(line))
            except Exception:
                pass
        return {"trace": trace, "rc": rc, "info": info, "stderr": v.clip_stderr(se, 1500), "names": [n for n, _ in group],
                "prog": pf}
    return v.parallel_map(one, list(enumerate(groups)), jobs=par)


def run_free(fxv, rd, jobs, par=8):
    shm = v.shm_dir("conc")

    def one(job):
        tag, args = job
        trace = os.path.join(rd, tag + ".ndjson")
        rc, so, se = v.run_cmd([fxv, "conc", "--mode", "free", "--out", trace, "--dir", shm] + args, timeout=900)
        info = {}
        for line in so.splitlines():
            try:
                info.update(json.loads(line))
            except Exception:
                pass
        return {"trace": trace, "rc": rc, "info": info, "stderr": v.clip_stderr(se, 1500), "args": args, "tag": tag}
    try:
        return v.parallel_map(one, jobs, jobs=par)
    finally:
        import shutil
        shutil.rmtree(shm, ignore_errors=True)


def validate(rd, trace, invariants, timeout=1500):
    first = json.loads(open(trace).readline())
    cfg = trace[:-7] + ".lin.cfg"
    tmpl = open(os.path.join(v.SPEC, "LinTrace.cfg.tmpl")).read()
    open(cfg, "w").write(tmpl.replace("@OVERHEAD@", str(first.get("overhead", 168)))
                         .replace("@INVARIANTS@", " ".join(invariants)))
    return v.run_tlc("LinTrace", cfg, rd, workers=1, timeout=timeout, env_extra={"TRACE": trace},
                     depth_first=True, coverage=False, xmx="6g")


def explain(r, trace):
    m = None
    for m in re.finditer(r"/\\ l = (\d+)", r.out):
        pass
    if not m:
        return None, "", []
    idx = int(m.group(1)) - 1
    fl = re.findall(r"/\\ flags = (\{[^}]*\})", r.out)
    lines = open(trace).read().splitlines()
    # the history this event belongs to starts at the previous reset
    start = idx
    while start > 1 and '"e":"reset"' not in lines[start - 1]:
        start -= 1
    hist = [x for x in lines[start - 1:idx] if '"e":"mem"' not in x]
    return idx, (fl[-1] if fl else "?"), hist


def brief(hist):
    out = []
    for h in hist[-10:]:
        try:
            e = json.loads(h)
        except Exception:
            continue
        if e["e"] == "inv":
            out.append("inv t%s %s k%s auto=%s ts=%s" % (e["t"], e["op"], e["k"], e["auto"], e["ts"]))
        elif e["e"] == "pub":
            out.append("pub t%s k%s kind%s ts=%s" % (e["t"], e["k"], e["kind"], e["ts"]))
        elif e["e"] == "res":
            out.append("res t%s %s n=%s" % (e["t"], e["res"]["tag"], e["res"]["n"]))
        elif e["e"] == "reset":
            out.append("reset")
    return "; ".join(out)

"""Crash engine shared by C02, C03, C05, C10 (and the crash parts of C11/C12): run `fxv crash`
workloads on the real persistent store under the device observer and validate the recorded
device-level traces with TLC (TraceDisk.tla)."""
import json
import os
import re
import shutil

import vcommon as v

CRASH_INV = ["CrashOpens", "CrashWindow", "CrashNoGhost"]
REAL_INV = ["RealOpens", "RealWindow", "RealNoGhost", "RealCount"]
ACK_INV = ["AtAckJournalClear", "AtAckLayout", "MetaMatches", "Partition", "NoUnknownRegion"]


def full_device_jobs(rng, n, extra=(), maximages="1500"):
    """Workloads on devices with 5..10 data blocks: allocation failures, retirement forced by lack of
    space, extents that end at the last block of the device, immediate reuse of freed blocks."""
    jobs = []
    for i in range(n):
        jobs.append(("full%d" % i, ["--seed", str(rng.randrange(1 << 30)), "--steps", "60", "--fmt", str([3, 3, 2, 1][i % 4]),
                                    "--blocks", str(rng.choice([21, 22, 23, 24, 26])), "--cpus", str(rng.choice([2, 4])),
                                    "--keys", str(rng.choice([2, 3, 4])), "--ttl", "1", "--end", "drop", "--flushpct", "25",
                                    "--maximages", maximages] + (["--edges", "60"] if i % 4 == 3 else []) + list(extra)))
    return jobs


def wide_batch_jobs(rng, n):
    """Batches of more than 60 records: the allocation-journal image is longer than one 512-byte sector,
    so a crash can tear the slot write (the slot then fails its checksum).  Crash images at
    acknowledgements and at every journal write, with the torn variant."""
    return [("wide%d" % i, ["--seed", str(rng.randrange(1 << 30)), "--steps", "30", "--fmt", str([3, 3, 2][i % 3]), "--blocks", "300",
                            "--cpus", "2", "--keys", "70", "--ttl", "1", "--end", "drop", "--flushpct", "5", "--maximages", "150",
                            "--wide", "66", "--wideevery", "10", "--cc", "4"]) for i in range(n)] + \
        [("wider%d" % i, ["--seed", str(rng.randrange(1 << 30)), "--steps", "14", "--fmt", str([3, 2][i % 2]), "--blocks", "700",
                          "--cpus", "2", "--keys", "310", "--ttl", "1", "--end", "drop", "--flushpct", "5", "--maximages", "60",
                          # more records in one batch than one io_uring submission holds (128) and than its queue (256);
                          # a journal image of five 512-byte sectors
                          "--wide", str([300, 140][i % 2]), "--wideevery", "6", "--cc", "4"]) for i in range(max(1, n // 2))]


def restart_wide_jobs(rng, n):
    """Two or three sessions (crash and restart, or clean restart) each of which BEGINS with a batch of more than 60
    records: the first allocation-journal image written after an open is longer than one sector and may tear, while
    the other slot still holds the last image of the previous session."""
    return [("rwide%d" % i, ["--seed", str(rng.randrange(1 << 30)), "--steps", "12", "--fmt", str([3, 3, 2][i % 3]), "--blocks", "300",
                             "--cpus", "2", "--keys", "70", "--ttl", "1", "--end", "drop", "--flushpct", "12", "--maximages", "150",
                             "--wide", "66", "--wideevery", "8", "--widefirst", "1", "--sessions", str(2 + i % 2), "--cleanrestart", "1", "--cc", "4"])
            for i in range(n)]


def huge_extent_jobs(rng, n, extra=()):
    """Values of more than 1 MiB: extents longer than the 256 blocks in which retirement markers are written
    (and recovery reads) at a time; crash images between the partial marker writes."""
    return [("huge%d" % i, ["--seed", str(rng.randrange(1 << 30)), "--steps", "16", "--fmt", str([3, 2, 1][i % 3]), "--blocks", "1000",
                            "--cpus", "2", "--keys", "2", "--ttl", "1", "--end", "drop", "--flushpct", "30", "--maximages", "120",
                            "--huge", "60", "--cc", "4"] + list(extra)) for i in range(n)]


def huge_reuse_jobs(rng, n):
    """Extents of 257..336 blocks written, replaced and deleted on a device that holds three or four of them: a large
    extent is placed into space that several earlier retirements left behind (their retirement-marker heads included),
    then the store is closed / crashed and reopened."""
    return [("hugereuse%d" % i, ["--seed", str(rng.randrange(1 << 30)), "--steps", "26", "--fmt", str([3, 2, 3, 1][i % 4]), "--blocks", str([1300, 1500][i % 2]),
                                 "--cpus", "2", "--keys", "3", "--ttl", "1", "--end", "drop", "--flushpct", "40", "--maximages", "60",
                                 "--huge", "75", "--cc", "4"]) for i in range(n)]


def huge_pair_jobs(rng, n):
    """Three neighbouring extents of 257..336 blocks; the first two are deleted (acknowledged), then a large record is
    written into the merged free run; close, reopen."""
    return [("hugepair%d" % i, ["--seed", str(rng.randrange(1 << 30)), "--steps", "18", "--fmt", str([3, 2, 1][i % 3]), "--blocks", "1500",
                                "--cpus", "2", "--keys", "3", "--ttl", "0", "--end", "drop", "--flushpct", "30", "--maximages", "200",
                                "--huge", "100", "--hugepair", "1", "--edges", "0", "--cc", "4"]) for i in range(n)]


def block_boundary_batch_jobs(rng, n):
    """Batches whose allocation-journal image ends exactly on a block boundary (40 + 8 * 507 = 4096, 40 + 8 * 1019 =
    8192) and their neighbours: image length and checksum coverage of the journal at the rounding edge."""
    sizes = [507, 506, 508, 1019]
    return [("bbatch%d" % i, ["--seed", str(rng.randrange(1 << 30)), "--steps", "7", "--fmt", str([3, 2][i % 2]),
                              "--blocks", str(1400 if sizes[i % 4] < 1000 else 2500), "--cpus", "2", "--keys", str(sizes[i % 4] + 6), "--ttl", "1",
                              "--end", "drop", "--flushpct", "5", "--maximages", "24", "--wide", str(sizes[i % 4]), "--wideevery", "4",
                              "--widefirst", "1", "--cc", "4"]) for i in range(n)]


def max_value_jobs(rng, n):
    """Values of exactly MAX_VALUE_SIZE (4 MiB) and one / two bytes less, acknowledged, crashed, recovered."""
    return [("maxval%d" % i, ["--seed", str(rng.randrange(1 << 30)), "--steps", "5", "--fmt", str([3, 2, 1][i % 3]), "--blocks", "3300",
                              "--cpus", "2", "--keys", "2", "--ttl", "1", "--end", "drop", "--flushpct", "35", "--maximages", "6",
                              "--huge", "100", "--hugemax", "1", "--cc", "4"]) for i in range(n)]


def run_workloads(fxv, rd, jobs, par=8):
    """jobs: list of (tag, [args]). Each workload records a trace incl. real recoveries."""
    shm = v.shm_dir("crash")

    def one(job):
        tag, args = job
        d = os.path.join(shm, tag)
        os.makedirs(d, exist_ok=True)
        trace = os.path.join(rd, tag + ".ndjson")
        rc, so, se = v.run_cmd([fxv, "crash", "--dir", d, "--out", trace] + args, timeout=600)
        info = {}
        for line in so.splitlines():
            try:
                info.update(json.loads(line))
            except Exception:
                pass
        shutil.rmtree(d, ignore_errors=True)
        return {"tag": tag, "trace": trace, "rc": rc, "info": info, "stderr": v.clip_stderr(se, 1500), "args": args}
    try:
        return v.parallel_map(one, jobs, jobs=par)
    finally:
        shutil.rmtree(shm, ignore_errors=True)


def validate(rd, trace, invariants, maxexh=6, timeout=1500):
    first = json.loads(open(trace).readline())
    cfg = trace[:-7] + ".cfg"
    tmpl = open(os.path.join(v.SPEC, "TraceDisk.cfg.tmpl")).read()
    open(cfg, "w").write(tmpl.replace("@DE@", str(first["de"])).replace("@MAXEXH@", str(maxexh))
                         .replace("@INVARIANTS@", " ".join(invariants)))
    return v.run_tlc("TraceDisk", cfg, rd, workers=1, timeout=timeout, env_extra={"TRACE": trace},
                     depth_first=True, coverage=False, xmx="6g")


def concat(rd, traces, name):
    """Concatenate traces (each starts with its own init event) into one file for one TLC run."""
    cat = os.path.join(rd, name + ".ndjson")
    index = []
    n = 0
    with open(cat, "w") as out:
        for t in traces:
            index.append((n + 1, t))
            for line in open(t):
                if line.strip():
                    out.write(line if line.endswith("\n") else line + "\n")
                    n += 1
    return cat, index


def locate(r, trace):
    """Event index (1-based line of the trace) whose application produced the offending state."""
    m = None
    for m in re.finditer(r"/\\ l = (\d+)", r.out):
        pass
    if not m:
        return None, None
    idx = int(m.group(1)) - 1
    lines = open(trace).read().splitlines()
    ev = lines[idx - 1] if 1 <= idx <= len(lines) else None
    return idx, ev


def context(trace, idx, n=6):
    lines = open(trace).read().splitlines()
    lo = max(0, idx - n)
    return [l[:260] for l in lines[lo:idx]]


def stale_chain_at(trace, idx):
    """Device state (all writes issued so far) at event idx: a block holding a complete retirement
    marker with remaining n > 1 while a block behind it, inside its extent, has been rewritten with
    record data since (the marker head is stale: its extent was partly reallocated)."""
    blk = {}
    for n, line in enumerate(open(trace), 1):
        if n > idx:
            break
        if '"e":"w"' not in line and '"e": "w"' not in line:
            continue
        try:
            w = json.loads(line)["w"]
        except Exception:
            continue
        if w.get("kind") != "d":
            continue
        for o, c in enumerate(w["c"]):
            blk[w["at"] + o] = c
    for b, c in blk.items():
        if c["t"] == "M" and c["n"] > 1 and c["i"] == 1:
            for j in range(1, c["n"]):
                t = blk.get(b + j)
                if t is not None and t["t"] in ("H", "T"):
                    return (b, c["n"], b + j)
    return None


def classify_violation(r, trace):
    """Build (what, key) for a TraceDisk invariant violation."""
    idx, ev = locate(r, trace)
    inv = r.violation.replace("invariant ", "")
    cf = None
    for cf in re.finditer(r"/\\ cflags = (\{[^}]*\})", r.out):
        pass
    cflags = cf.group(1) if cf else ""
    fresh = False
    if idx:
        # fresh-device start-up: the state holds only metadata / first journal writes, no data yet
        lines = open(trace).read().splitlines()[:idx]
        kinds = [json.loads(x).get("w", {}).get("kind") for x in lines if '"e":"w"' in x]
        fsyncs = sum(1 for x in lines if '"e":"fsync"' in x)
        fresh = "d" not in kinds and fsyncs <= 1
    e = {}
    try:
        e = json.loads(ev)
    except Exception:
        pass
    detail = ""
    if e.get("e") == "rec":
        detail = " real recovery of units %s -> %s" % (e.get("units"), json.dumps(e.get("res"))[:200])
    key = "%s %s" % (inv, cflags)
    if fresh and (inv in ("CrashOpens", "RealOpens")):
        key = "fresh-device-metadata-not-synced: %s" % inv
    if idx and (inv in ("CrashNoGhost", "RealNoGhost", "RepairsSafe")) :
        sc = stale_chain_at(trace, idx)
        if sc:
            key = ("stale-marker-chain: a free block still holds a complete retirement marker whose extent reaches into "
                   "blocks reallocated since (%s); marker at block %d remaining %d, block %d rewritten" % (inv, sc[0], sc[1], sc[2]))
    what = "%s cflags=%s at event %s of %s: %s%s" % (inv, cflags, idx, os.path.basename(trace),
                                                     (ev or "")[:200], detail)
    return what, key, idx


def run_and_validate(prop, fxv, rd, jobs, invariants, maxexh=6, par_tlc=8):
    res = run_workloads(fxv, rd, jobs)
    violations = []
    ok_traces = []
    for x in res:
        if x["rc"] == 3 or "hang" in x["info"]:
            p = v.save_replay(prop.lower(), x["tag"] + ".args.json", {"args": x["args"], "info": x["info"]})
            violations.append({"what": "workload did not terminate (watchdog): %s" % x["info"],
                               "replay": p, "key": "hang"})
        elif x["rc"] != 0:
            if v.panic_in_code_under_test(x["stderr"]):
                p = v.save_replay(prop.lower(), x["tag"] + ".args.json", {"args": x["args"], "stderr": x["stderr"]})
                violations.append({"what": "panic: " + x["stderr"][-300:], "replay": p, "key": "panic"})
            else:
                raise v.ToolError("fxv crash failed rc=%s %s" % (x["rc"], x["stderr"][-500:]))
        else:
            ok_traces.append(x)

    def val(x):
        return x, validate(rd, x["trace"], invariants, maxexh)
    stats = {"traces": 0, "events": 0, "images_real": 0, "states": 0, "transitions": 0,
             "max_pending_units": 0, "deviations": 0, "gens": 0, "flushes": 0}
    for x, r in v.parallel_map(val, ok_traces, jobs=par_tlc):
        stats["traces"] += 1
        stats["events"] += x["info"].get("events", 0)
        stats["images_real"] += x["info"].get("images", 0)
        stats["gens"] += x["info"].get("gens", 0)
        stats["flushes"] += x["info"].get("flushes", 0)
        stats["max_pending_units"] = max(stats["max_pending_units"], x["info"].get("max_pending_units", 0))
        stats["states"] += r.distinct
        stats["transitions"] += r.generated
        if r.violation and r.violation.startswith("invariant"):
            what, key, idx = classify_violation(r, x["trace"])
            keep = v.save_replay(prop.lower(), os.path.basename(x["trace"]), open(x["trace"]).read())
            violations.append({"what": what + " (workload: %s)" % " ".join(x["args"]), "replay": keep, "key": key})
        elif r.violation:
            raise v.ToolError("TraceDisk: %s: %s" % (r.violation, r.out[-600:]))
        else:
            v.tlc_ok(r, "TraceDisk(%s)" % x["tag"])
    return violations, stats, [x["trace"] for x in ok_traces]


def replay(prop, path, invariants):
    rd = v.run_dir("crash_replay")
    r = validate(rd, path, invariants)
    if r.violation:
        what, key, idx = classify_violation(r, path)
        print(what)
        print("VIOLATION property=%s replay=%s" % (prop, path))
        return 1
    v.tlc_ok(r, "TraceDisk(replay)")
    print("trace accepted")
    return 0


def sample_of(trace, n=6):
    out = []
    for line in open(trace):
        if '"e":"w"' in line or '"e":"rec"' in line or '"e":"flush_end"' in line:
            out.append(json.loads(line[:2000]) if len(line) < 2000 else line[:300])
        if len(out) >= n:
            break
    return out


def mc_model(rd, module, cfgname, invariants=None, workers=8, timeout=1800, expect_violation=False):
    """Model-check one of the protocol models (WriteBehind / Recovery) with an invariant subset."""
    import re as _re
    src = open(os.path.join(v.SPEC, cfgname)).read()
    if invariants:
        src = _re.sub(r"INVARIANTS[^\n]*", "INVARIANTS TypeOK " + " ".join(invariants), src)
    cfg = os.path.join(rd, "mc_" + cfgname)
    open(cfg, "w").write(src)
    r = v.run_tlc(module, cfg, rd, workers=workers, timeout=timeout, coverage=False, xmx="12g")
    if expect_violation:
        if not r.violation:
            raise v.ToolError("%s/%s: the seeded model fault was not detected (model sanity)" % (module, cfgname))
        return r
    v.tlc_ok(r, "%s(%s)" % (module, cfgname))
    return r

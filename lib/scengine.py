"""StoreConc engine: the fine-grained concurrent design model (spec/StoreConc.tla) bound to the real store.

1. programs of the op-variant alphabet (lib/concengine.py) are translated into model programs;
2. TLC enumerates EVERY interleaving of each program at scheduling-point granularity (no preemption bound),
   checks the design invariants and prints one line per terminal behaviour;
3. each behaviour becomes (a) a history in LinTrace's vocabulary - the model's behaviours are judged by the same
   oracle as the implementation's - and (b) a complete schedule that the controlled scheduler replays on the
   real store: the real threads must arrive at the scheduling points the model predicts, return the predicted
   results and publish the predicted versions (conformance).  The verdict on the REAL history is LinTrace's
   (property formulas only, DESIGN R4/R6); conformance deviations are recorded as evidence.
"""
import json
import os
import random

import vcommon as v
import concengine as ce

E9 = ce.E9
NOW = ce.NOW
NOWM = 2000          # the model's `Now`
UM = 50              # model units per second
NOVAL = {"k": "none", "id": 0, "len": 0, "n": 0}
SUPPORTED = {"insert", "delete", "get", "contains", "cas", "incr", "iia", "patch", "update_ttl", "sweep"}


def r2m(r):
    """real u64 nanoseconds -> model instant (0 stays 0 = none)"""
    if r == 0:
        return 0
    q, rem = divmod(r - NOW, E9)
    if not (0 <= rem < UM):
        raise ValueError("instant %d has no model image" % r)
    return NOWM + q * UM + rem


def m2r(m):
    if m == 0:
        return 0
    q, rem = divmod(m - NOWM, UM)
    return NOW + q * E9 + rem


def limbs(x):
    return [x // (E9 * E9), (x // E9) % E9, x % E9]


def model_op(op):
    auto = op.get("auto", True)
    return {"op": op["op"], "v": op.get("v", NOVAL), "x": op.get("x", NOVAL), "d": op.get("d", 0),
            "auto": auto, "ts": 0 if auto else r2m(op.get("tsv", 0)), "ttl": op.get("ttlv", 0),
            "wttl": op.get("wttl", False), "pt": op.get("pt", -1), "ps": op.get("ps", 0)}


def model_program(name, p):
    """concengine program -> model program, or None when it is outside the model's scope
    (one key, memory-only, keyed calls and the sweeper)."""
    cfg = p["cfg"]
    if cfg.get("pers") or len(p["keys"]) != 1 or "script" in p or p.get("points"):
        return None
    init = {"p": False, "ts": 0, "exp": 0, "val": NOVAL}
    for op in p.get("init", []):
        if op["op"] != "insert" or op.get("auto", True):
            return None
        ts = op["tsv"]
        exp = ts + op.get("ttlv", 0) * E9 if op.get("wttl") and op.get("ttlv", 0) > 0 else 0
        init = {"p": True, "ts": r2m(ts), "exp": r2m(exp), "val": op["v"]}
    threads = []
    for ops in p["threads"]:
        for op in ops:
            if op["op"] not in SUPPORTED or op.get("k", 1) != 1:
                return None
        threads.append([model_op(o) for o in ops])
    try:
        return {"name": name, "init": init, "threads": threads, "lim": cfg.get("lim", -1)}
    except ValueError:
        return None


def chain_family():
    """Several generations published (and one retired) while another thread's write is between its
    optimistic read and its guarded step: the refusal rules consult the WHOLE successor chain."""
    progs = []
    t0 = NOW - 10 * E9
    mid = {"op": "insert", "k": 1, "v": ce.B2, "auto": False, "tsv": NOW + 5}
    cmid = {"op": "insert", "k": 1, "v": {"k": "i", "id": 0, "len": 8, "n": 9}, "auto": False, "tsv": NOW + 5}
    dmid = {"op": "insert", "k": 1, "v": {"k": "d", "id": 0, "len": 7, "n": 2}, "auto": False, "tsv": NOW + 5}
    up1 = {"op": "insert", "k": 1, "v": ce.B3, "auto": False, "tsv": NOW + 6}
    up2 = {"op": "insert", "k": 1, "v": ce.B1, "auto": False, "tsv": NOW + 7}
    dele = {"op": "delete", "k": 1, "auto": False, "tsv": NOW + 9}
    again = {"op": "insert", "k": 1, "v": ce.B2, "auto": False, "tsv": t0 - 5 * E9}
    writers = {"bytes": [("ins", mid), ("insb", dict(mid, bytes=True))],
               "counter": [("incr", {"op": "incr", "k": 1, "d": 2, "auto": False, "tsv": NOW + 5}), ("ins", cmid)],
               "doc": [("patch", {"op": "patch", "k": 1, "ps": 3, "pt": -1, "auto": False, "tsv": NOW + 5}), ("ins", dmid)]}
    for iname, ws in writers.items():
        for wn, w in ws:
            for tag, other in (("uud", [up1, up2, dele]), ("uudr", [up1, up2, dele, again]), ("ud", [up1, dele]),
                               ("udr", [up1, dele, again])):
                progs.append(("chain|%s|%s|%s" % (iname, wn, tag), ce.prog(ce.INITS[iname], [[w], other])))
    return progs


def tla(x):
    """JSON value -> TLA+ literal (a program file read through IOEnv costs a deserialisation per state)."""
    if isinstance(x, bool):
        return "TRUE" if x else "FALSE"
    if isinstance(x, int):
        return str(x)
    if isinstance(x, str):
        return '"%s"' % x
    if isinstance(x, list):
        return "<<" + ", ".join(tla(y) for y in x) + ">>"
    return "[" + ", ".join("%s |-> %s" % (k, tla(val)) for k, val in x.items()) + "]"


def run_model(rd, tag, mprogs, workers=8, timeout=1500, emit=True, simulate=None):
    """TLC over the program family; returns (TlcResult, [behaviour dict])."""
    import shutil
    sd = os.path.join(rd, "sc_" + tag)
    os.makedirs(sd, exist_ok=True)
    shutil.copy(os.path.join(v.SPEC, "StoreConc.tla"), sd)
    with open(os.path.join(rd, "%s.scprogs.ndjson" % tag), "w") as fh:
        for m in mprogs:
            fh.write(json.dumps(m) + "\n")
    mod = "SCRun"
    with open(os.path.join(sd, mod + ".tla"), "w") as fh:
        fh.write("---- MODULE %s ----\n\\* generated by lib/scengine.py: StoreConc.tla over %d programs\n"
                 "EXTENDS StoreConc\nProgsLit == %s\n====\n" % (mod, len(mprogs), tla(mprogs)))
    with open(os.path.join(sd, mod + ".cfg"), "w") as fh:
        fh.write("CONSTANTS\n  Programs <- ProgsLit\n  Now = %d  U = %d\n  Overhead = 168  KLen = 2\n"
                 "SPECIFICATION Spec\nINVARIANTS NoFlags QuiescentExact%s\n" % (NOWM, UM, " EmitBehaviour" if emit else ""))
    r = v.run_tlc(mod, mod + ".cfg", rd, workers=workers, timeout=timeout, coverage=False, xmx="12g",
                  simulate=simulate, spec_dir=sd)
    behaviours = []
    for line in r.out.splitlines():
        if line.startswith('"{'):
            try:
                behaviours.append(json.loads(json.loads(line)))
            except Exception:
                pass
    return r, behaviours


def lin_events(mp, b):
    """The model behaviour as a LinTrace history (same vocabulary as harness/src/concdrv.rs)."""
    ini = mp["init"]
    ev = [{"e": "reset", "cfg": {"pers": False, "ttl": True, "cache": False, "fmt": 3, "lim": mp["lim"]},
           "now": limbs(NOW), "klen": [2], "overhead": 168, "threads": len(mp["threads"]),
           "init": [{"p": ini["p"], "ts": limbs(m2r(ini["ts"])), "exp": limbs(m2r(ini["exp"])), "val": ini["val"]}]}]
    for h in b["h"]:
        if h["e"] == "inv":
            o = h["op"]
            ev.append({"e": "inv", "t": h["t"], "op": o["op"], "k": 1, "v": o["v"], "x": o["x"], "d": o["d"],
                       "auto": o["auto"], "ts": limbs(m2r(o["ts"])), "ttl": limbs(o["ttl"]), "wttl": o["wttl"],
                       "pt": o["pt"], "ps": o["ps"], "lo": 0, "hi": 0, "lim": 0})
        elif h["e"] == "pub":
            ev.append({"e": "pub", "t": h["t"], "bg": False, "k": 1, "ts": limbs(m2r(h["ts"])),
                       "exp": limbs(m2r(h["exp"])), "kind": h["kind"]})
        elif h["e"] == "res":
            r = h["res"]
            ev.append({"e": "res", "t": h["t"], "res": {"tag": r["tag"], "n": r["n"], "val": r["val"], "tt": [0, 0, 0]},
                       "items": []})
        elif h["e"] == "step":
            ev.append({"e": "mem", "v": h["mem"], "own": 0})
    f = b["fin"]
    ev.append({"e": "final", "hash": [{"p": f["p"], "ts": limbs(m2r(f["ts"])), "vlen": f["vlen"]}],
               "tree": [f["tree"]], "len": f["len"], "mem": f["mem"]})
    return ev


def expected(b):
    """What the real run must show: arrivals, results per thread, publications, final state."""
    arr = [[h["t"] - 1, h["at"]] for h in b["h"] if h["e"] == "step"]
    res = [[h["t"], h["res"]["tag"], h["res"]["n"], h["res"]["val"]] for h in b["h"] if h["e"] == "res"]
    pubs = [[h["t"], limbs(m2r(h["ts"])), limbs(m2r(h["exp"])), h["kind"]] for h in b["h"] if h["e"] == "pub"]
    f = b["fin"]
    fin = {"p": f["p"], "ts": limbs(m2r(f["ts"])), "vlen": f["vlen"], "tree": f["tree"], "len": f["len"], "mem": f["mem"]}
    return arr, res, pubs, fin


def compare(b, got):
    """Conformance of one replayed behaviour; returns the list of deviation kinds."""
    arr, res, pubs, fin = expected(b)
    dev = []
    if got.get("stalled"):
        return ["stall"]
    if [list(a) for a in got["arrivals"]] != arr:
        dev.append("cf")
    gres = [[r["t"], r["res"]["tag"], r["res"]["n"], r["res"]["val"]] for r in got["res"]]
    if sorted(json.dumps(x, sort_keys=True) for x in gres) != sorted(json.dumps(x, sort_keys=True) for x in res):
        dev.append("res")
    gp = [[p["t"], p["ts"], p["exp"], p["kind"]] for p in got["pubs"]]
    if gp != pubs:
        dev.append("pub")
    gf = got.get("final") or {}
    if gf:
        h = gf["hash"][0]
        g = {"p": h["p"], "ts": h["ts"], "vlen": h["vlen"], "tree": gf["tree"][0], "len": gf["len"], "mem": gf["mem"]}
        if g != fin:
            dev.append("final")
    return dev


def replay(fxv, rd, tag, items, par=12, chunk=400):
    """items: [(concengine program, behaviour)]; runs every schedule on the real store.
    Returns [(trace path, [got...])] per chunk, aligned with the items of that chunk."""
    groups = [items[i:i + chunk] for i in range(0, len(items), chunk)]

    def one(arg):
        gi, group = arg
        pf = os.path.join(rd, "%s_rp%d.prog" % (tag, gi))
        with open(pf, "w") as fh:
            for p, b in group:
                q = dict(p)
                q["schedule"] = [h["t"] - 1 for h in b["h"] if h["e"] == "step"]
                fh.write(json.dumps(q) + "\n")
        trace = os.path.join(rd, "%s_rp%d.ndjson" % (tag, gi))
        steps = os.path.join(rd, "%s_rp%d.steps" % (tag, gi))
        rc, so, se = v.run_cmd([fxv, "conc", "--mode", "replay", "--prog", pf, "--out", trace, "--steps", steps],
                               timeout=900)
        got = []
        if os.path.exists(steps):
            got = [json.loads(l) for l in open(steps) if l.strip()]
        info = {}
        for line in so.splitlines():
            try:
                info.update(json.loads(line))
            except Exception:
                pass
        return {"trace": trace, "rc": rc, "got": got, "stderr": v.clip_stderr(se, 1500), "prog": pf, "n": len(group),
                "info": info, "group": group}
    return v.parallel_map(one, list(enumerate(groups)), jobs=par)


def write_model_histories(rd, tag, mprogs, behaviours, chunk=3000):
    """ndjson files of model behaviours in LinTrace's vocabulary."""
    byname = {m["name"]: m for m in mprogs}
    files = []
    for i in range(0, len(behaviours), chunk):
        f = os.path.join(rd, "%s_model%d.ndjson" % (tag, i // chunk))
        with open(f, "w") as fh:
            for b in behaviours[i:i + chunk]:
                for e in lin_events(byname[b["p"]], b):
                    fh.write(json.dumps(e) + "\n")
        files.append(f)
    return files


def sample(behaviours, n, seed):
    """At most n behaviours, every program represented (round robin over programs)."""
    if len(behaviours) <= n:
        return list(behaviours)
    rng = random.Random(seed)
    by = {}
    for b in behaviours:
        by.setdefault(b["p"], []).append(b)
    for l in by.values():
        rng.shuffle(l)
    out = []
    names = sorted(by)
    while len(out) < n and names:
        for nm in list(names):
            if by[nm]:
                out.append(by[nm].pop())
                if len(out) >= n:
                    break
            else:
                names.remove(nm)
    return out

"""ScanConc engine: spec/ScanConc.tla (range scans racing with writers over several keys, both indexes as separate
state, the hash-bucket guard held across the ordered-index scheduling points) bound to the real store.

Same three uses as lib/scengine.py (StoreConc.tla): TLC enumerates every interleaving of the program family and checks
the design invariants (NoFlags incl. the scan flags order/window/genuine/phantom/missing, IndexAgree, NoDeadlock,
QuiescentExact); every terminal behaviour is (a) judged by LinTrace.tla and (b) replayed as a schedule on the real
store: arrivals at scheduling points, results (the scan's items included), published versions, final state of BOTH
indexes per key, len(), memory_usage().  Verdicts on the real histories are LinTrace's (RangeStable, Linearizable)."""
import json
import os
import random
import shutil

import vcommon as v
import concengine as ce
import scengine as sc

E9, NOW = ce.E9, ce.NOW
KEYS = ("ka", "kb", "kc")
TREE_POINTS = ["tree_insert", "tree_publish", "tree_remove"]
NOVAL = sc.NOVAL
T0 = NOW - 10 * E9


def ins(k, val, ts, ttl=0):
    o = {"op": "insert", "k": k, "v": val, "auto": False, "tsv": ts}
    if ttl:
        o.update({"ttlv": ttl, "wttl": True})
    return o


def dele(k, ts):
    return {"op": "delete", "k": k, "auto": False, "tsv": ts}


def rng_(lo, hi, lim):
    return {"op": "range", "k": 1, "lo": lo, "hi": hi, "lim": lim}


INITS = {
    "gap": [ins(1, ce.B1, T0), ins(3, ce.B2, T0)],
    "full": [ins(1, ce.B1, T0), ins(2, ce.B3, T0), ins(3, ce.B2, T0)],
    "exp1": [ins(1, ce.B1, T0, ttl=5), ins(2, ce.B2, T0)],          # k1 expired at NOW (deadline NOW - 5 s)
    "exp2": [ins(1, ce.B1, T0), ins(2, ce.B2, T0, ttl=5), ins(3, ce.B3, T0)],
}
SCANS = {"all3": rng_(1, 3, 3), "all2": rng_(1, 3, 2), "tail": rng_(2, 3, 3), "one": rng_(1, 2, 1)}
WRITERS = {
    "create2": [ins(2, ce.B2, NOW + 1)],
    "del1": [dele(1, NOW + 2)],
    "repl1": [ins(1, ce.B3, NOW + 3)],
    "recreate3": [dele(3, NOW + 4), ins(3, ce.B1, NOW + 5)],
    "flicker2": [ins(2, ce.B1, NOW + 6), dele(2, NOW + 7)],
    "ttl1": [ins(1, ce.B2, NOW + 8, ttl=50)],
    "refused1": [ins(1, ce.B3, T0 - E9), dele(3, NOW + 9)],
    "two": [ins(2, ce.B3, NOW + 10), ins(1, ce.B2, NOW + 11)],
}
EXPW = {   # writers for the inits with an expired key (the sweeper names the key that carries the TTL)
    "exp1": {"sweep": [{"op": "sweep", "k": 1}], "over": [ins(1, ce.B3, NOW + 3)], "sweepdel": [{"op": "sweep", "k": 1}, dele(2, NOW + 4)]},
    "exp2": {"sweep": [{"op": "sweep", "k": 2}], "over": [ins(2, ce.B1, NOW + 3)], "del": [dele(2, NOW + 4)]},
}


def prog(init, threads):
    return {"cfg": {"pers": False, "ttl": True, "lim": -1}, "keys": list(KEYS), "init": init, "threads": threads,
            "points": TREE_POINTS}


def family(tier="quick"):
    """Two-thread programs: one scanning thread (one or two scans) against one writing thread; writer against the
    sweeper and a reader on the same key (guard hand-over).  Three-thread programs only in the thorough tier."""
    progs = []
    for iname in ("gap", "full"):
        for sn, s in SCANS.items():
            for wn, w in WRITERS.items():
                progs.append(("scan|%s|%s|%s" % (iname, sn, wn), prog(INITS[iname], [[s], w])))
        progs.append(("scan2|%s|recreate3" % iname, prog(INITS[iname], [[SCANS["all3"], SCANS["all2"]], WRITERS["recreate3"]])))
    for iname, ws in EXPW.items():
        for sn in ("all3", "all2", "one"):
            for wn, w in ws.items():
                progs.append(("scan|%s|%s|%s" % (iname, sn, wn), prog(INITS[iname], [[SCANS[sn]], w])))
        k = 1 if iname == "exp1" else 2
        progs.append(("guard|%s|sweep_over" % iname, prog(INITS[iname], [ws["sweep"], ws["over"] + [{"op": "get", "k": k}]])))
        progs.append(("guard|%s|sweep_get" % iname, prog(INITS[iname], [ws["sweep"], [{"op": "get", "k": k}, {"op": "get", "k": 3 - k}]])))
    return progs


def triple_family():
    progs = []
    for iname in ("gap", "full"):
        progs.append(("tri|%s|one|create2|del1" % iname, prog(INITS[iname], [[SCANS["one"]], WRITERS["create2"], WRITERS["del1"]])))
        progs.append(("tri|%s|all2|repl1|create2" % iname, prog(INITS[iname], [[SCANS["all2"]], WRITERS["repl1"], WRITERS["create2"]])))
    progs.append(("tri|exp1|one|sweep|over", prog(INITS["exp1"], [[SCANS["one"]], EXPW["exp1"]["sweep"], EXPW["exp1"]["over"]])))
    return progs


def model_op(op):
    return {"op": op["op"], "k": op.get("k", 1), "v": op.get("v", NOVAL), "ts": sc.r2m(op.get("tsv", 0)),
            "ttl": op.get("ttlv", 0), "wttl": op.get("wttl", False), "lo": op.get("lo", 0), "hi": op.get("hi", 0),
            "lim": op.get("lim", 0)}


def model_program(name, p):
    init = [{"p": False, "ts": 0, "exp": 0, "val": NOVAL} for _ in p["keys"]]
    for op in p["init"]:
        ts = op["tsv"]
        exp = ts + op["ttlv"] * E9 if op.get("wttl") else 0
        init[op["k"] - 1] = {"p": True, "ts": sc.r2m(ts), "exp": sc.r2m(exp), "val": op["v"]}
    return {"name": name, "init": init, "threads": [[model_op(o) for o in ops] for ops in p["threads"]]}


def run_model(rd, tag, mprogs, shared, workers=8, timeout=1500, emit=True, simulate=None, view=False, one_in=1):
    sd = os.path.join(rd, "scan_" + tag)
    os.makedirs(sd, exist_ok=True)
    shutil.copy(os.path.join(v.SPEC, "ScanConc.tla"), sd)
    mod = "ScanRun"
    with open(os.path.join(sd, mod + ".tla"), "w") as fh:
        fh.write("---- MODULE %s ----\n\\* generated by lib/scanengine.py: ScanConc.tla over %d programs\n"
                 "EXTENDS ScanConc\nProgsLit == %s\nNoHist == <<prog, cur, slot, gens, gh, mem, cnt, pc, opi, loc, flags>>\n====\n"
                 % (mod, len(mprogs), sc.tla(mprogs)))
    with open(os.path.join(sd, mod + ".cfg"), "w") as fh:
        fh.write("CONSTANTS\n  Programs <- ProgsLit\n  Now = %d  U = %d\n  Overhead = 168  KLen = 2\n  EmitOneIn = %d\n  SharedBuckets = %s\n"
                 "SPECIFICATION Spec\nCHECK_DEADLOCK FALSE\n%sINVARIANTS NoFlags QuiescentExact IndexAgree NoDeadlock%s\n"
                 % (sc.NOWM, sc.UM, one_in, "TRUE" if shared else "FALSE", "VIEW NoHist\n" if view else "",
                    " EmitBehaviour" if emit else ""))
    r = v.run_tlc(mod, mod + ".cfg", rd, workers=workers, timeout=timeout, coverage=False, xmx="12g",
                  simulate=simulate, spec_dir=sd)
    behaviours = []
    for line in r.out.splitlines():
        if line.startswith('"{'):
            try:
                behaviours.append(json.loads(json.loads(line)))
            except Exception:
                pass
    return r, behaviours


def lin_events(mp, b):
    n = len(mp["init"])
    ev = [{"e": "reset", "cfg": {"pers": False, "ttl": True, "cache": False, "fmt": 3, "lim": -1},
           "now": sc.limbs(NOW), "klen": [2] * n, "overhead": 168, "threads": len(mp["threads"]),
           "init": [{"p": i["p"], "ts": sc.limbs(sc.m2r(i["ts"])), "exp": sc.limbs(sc.m2r(i["exp"])), "val": i["val"]}
                    for i in mp["init"]]}]
    for h in b["h"]:
        if h["e"] == "inv":
            o = h["op"]
            ev.append({"e": "inv", "t": h["t"], "op": o["op"], "k": o["k"], "v": o["v"], "x": NOVAL, "d": 0,
                       "auto": False if o["op"] in ("insert", "delete") else True,
                       "ts": sc.limbs(sc.m2r(o["ts"])), "ttl": sc.limbs(o["ttl"]), "wttl": o["wttl"],
                       "pt": -1, "ps": 0, "lo": o["lo"], "hi": o["hi"], "lim": o["lim"]})
        elif h["e"] == "pub":
            ev.append({"e": "pub", "t": h["t"], "bg": False, "k": h["k"], "ts": sc.limbs(sc.m2r(h["ts"])),
                       "exp": sc.limbs(sc.m2r(h["exp"])), "kind": h["kind"]})
        elif h["e"] == "res":
            r = h["res"]
            ev.append({"e": "res", "t": h["t"], "res": {"tag": r["tag"], "n": r["n"], "val": r["val"], "tt": [0, 0, 0]},
                       "items": [{"k": i["k"], "val": i["val"]} for i in h["items"]]})
        elif h["e"] == "step":
            ev.append({"e": "mem", "v": h["mem"], "own": 0})
    f = b["fin"]
    ev.append({"e": "final", "hash": [{"p": x["p"], "ts": sc.limbs(sc.m2r(x["ts"])), "vlen": x["vlen"]} for x in f["hash"]],
               "tree": f["tree"], "len": f["len"], "mem": f["mem"]})
    return ev


def expected(b):
    arr = [[h["t"] - 1, h["at"]] for h in b["h"] if h["e"] == "step"]
    res = [[h["t"], h["res"]["tag"], h["res"]["n"], h["res"]["val"], [[i["k"], i["val"]] for i in h["items"]]]
           for h in b["h"] if h["e"] == "res"]
    pubs = [[h["t"], h["k"], sc.limbs(sc.m2r(h["ts"])), sc.limbs(sc.m2r(h["exp"])), h["kind"]] for h in b["h"] if h["e"] == "pub"]
    f = b["fin"]
    fin = {"hash": [[x["p"], sc.limbs(sc.m2r(x["ts"])), x["vlen"]] for x in f["hash"]], "tree": f["tree"],
           "len": f["len"], "mem": f["mem"]}
    return arr, res, pubs, fin


def compare(b, got):
    arr, res, pubs, fin = expected(b)
    if got.get("stalled"):
        return ["stall"]
    dev = []
    if [list(a) for a in got["arrivals"]] != arr:
        dev.append("cf")
    gres = [[r["t"], r["res"]["tag"], r["res"]["n"], r["res"]["val"], [[i["k"], i["val"]] for i in r.get("items", [])]]
            for r in got["res"]]
    key = lambda x: json.dumps(x, sort_keys=True)
    if sorted(map(key, gres)) != sorted(map(key, res)):
        dev.append("res")
    gp = [[p["t"], p["k"], p["ts"], p["exp"], p["kind"]] for p in got["pubs"]]
    if gp != pubs:
        dev.append("pub")
    gf = got.get("final") or {}
    if gf:
        g = {"hash": [[h["p"], h["ts"], h["vlen"]] for h in gf["hash"]], "tree": gf["tree"], "len": gf["len"], "mem": gf["mem"]}
        if g != fin:
            dev.append("final")
    return dev


def write_model_histories(rd, tag, mprogs, behaviours, chunk=3000):
    byname = {m["name"]: m for m in mprogs}
    files = []
    for i in range(0, len(behaviours), chunk):
        f = os.path.join(rd, "%s_model%d.ndjson" % (tag, i // chunk))
        with open(f, "w") as fh:
            for b in behaviours[i:i + chunk]:
                for e in lin_events(byname[b["p"]], b):
                    fh.write(json.dumps(e) + "\n")
        files.append(f)
    return files


def part(prop, tier, seed, rd, fxv, viol, st, inv, collect, nsample=2500):
    """The ScanConc part of a check.  Returns the info dict for the evidence."""
    fam = family(tier)
    if tier == "quick":
        # half of the family per run, rotating with the seed (every program within two consecutive seeds)
        fam = [x for i, x in enumerate(fam) if (i + seed) % 2 == 0]
    mprogs, src = [], {}
    for name, p in fam:
        mprogs.append(model_program(name, p))
        src[name] = p
    info = {"programs": len(mprogs)}
    # design invariants with per-key guards (every interleaving an instance WITHOUT bucket sharing admits)
    r0, _ = run_model(rd, "perkey", mprogs, shared=False, workers=8, timeout=1500, emit=False, view=True)
    if r0.timeout or (r0.error and not r0.violation):
        raise v.ToolError("ScanConc (per-key guards) failed: %s %s" % (r0.error, r0.out[-600:]))
    info["perkey_states"] = r0.distinct
    info["design_violation"] = r0.violation
    tri = [model_program(n, p) for n, p in triple_family()]
    if tier != "quick":
        r3, _ = run_model(rd, "tri", tri, shared=False, workers=8, timeout=3000, emit=False, view=True)
        if r3.timeout or (r3.error and not r3.violation):
            raise v.ToolError("ScanConc (three threads) failed: %s %s" % (r3.error, r3.out[-600:]))
        info["triple_states"] = r3.distinct
        info["design_violation"] = info["design_violation"] or r3.violation
    # behaviours for the replay: one shared guard - the schedules every instance admits, whichever keys share a bucket
    r, beh = run_model(rd, "shared", mprogs, shared=True, workers=8, timeout=1500, one_in=16 if tier == "quick" else 2)
    if r.timeout or (r.error and not r.violation):
        raise v.ToolError("ScanConc model checking failed: %s %s" % (r.error, r.out[-600:]))
    info.update({"model_states": r.distinct, "model_behaviours": len(beh), "model_wall_s": round(r.wall + r0.wall, 1)})
    info["design_violation"] = info["design_violation"] or r.violation
    if not beh:
        raise v.ToolError("ScanConc produced no behaviour: " + r.out[-600:])
    sel = sc.sample(beh, nsample if tier == "quick" else 100000, seed)
    files = write_model_histories(rd, "scan", mprogs, sel, chunk=3000)
    rejected = 0
    for f, rr in zip(files, v.parallel_map(lambda f: ce.validate(rd, f, ["RangeStable", "Linearizable", "NotHidden"]), files, jobs=8)):
        if rr.violation and rr.violation.startswith("invariant"):
            rejected += 1
            info.setdefault("model_rejections", []).append(ce.brief(ce.explain(rr, f)[2]))
        elif rr.violation or rr.error:
            raise v.ToolError("LinTrace on ScanConc behaviours: %s %s" % (rr.violation or rr.error, rr.out[-500:]))
    info["model_histories_judged"] = len(sel)
    info["model_history_files_rejected"] = rejected
    items = [(src[b["p"]], b) for b in sel]
    res = sc.replay(fxv, rd, "scan", items)
    dev, examples, conform = {}, [], 0
    for g in res:
        for (p, b), got in zip(g["group"], g["got"]):
            d = compare(b, got)
            if d:
                dev[",".join(d)] = dev.get(",".join(d), 0) + 1
                if len(examples) < 5:
                    examples.append({"program": b["p"], "deviation": d,
                                     "schedule": [[h["t"], h["at"]] for h in b["h"] if h["e"] == "step"],
                                     "arrived": got.get("arrivals")})
            else:
                conform += 1
        del g["group"]
    info.update({"replayed": len(items), "conforming": conform, "deviations": dev, "deviation_examples": examples})
    collect(prop, res, rd, inv, viol, st)
    return info
